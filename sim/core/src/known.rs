//! Reader for /verif/KNOWN_FINDINGS.txt. The file is read, never written, by
//! the checks. Line formats:
//!   known: property=<id> sig=<signature> <free text>
//!   fixed: property=<id> <commit> <free text>
//! A `known:` line suppresses (as KNOWN-FINDING) exactly the violations whose
//! minimised signature equals <signature>; `fixed:` lines suppress nothing.

use std::collections::BTreeMap;

#[derive(Default, Debug)]
pub struct Known {
    /// property -> list of (signature, description)
    pub known: BTreeMap<String, Vec<(String, String)>>,
    pub fixed: BTreeMap<String, Vec<String>>,
}

pub fn load() -> Known {
    let path = crate::verif_root().join("KNOWN_FINDINGS.txt");
    let mut k = Known::default();
    let text = match std::fs::read_to_string(&path) {
        Ok(t) => t,
        Err(_) => return k,
    };
    for line in text.lines() {
        let line = line.trim();
        if line.is_empty() || line.starts_with('#') {
            continue;
        }
        if let Some(rest) = line.strip_prefix("known:") {
            let mut prop = None;
            let mut sig = None;
            let mut desc = Vec::new();
            for w in rest.split_whitespace() {
                if let Some(p) = w.strip_prefix("property=") {
                    prop = Some(p.to_string());
                } else if let Some(s) = w.strip_prefix("sig=") {
                    sig = Some(s.to_string());
                } else {
                    desc.push(w);
                }
            }
            if let (Some(p), Some(s)) = (prop, sig) {
                k.known.entry(p).or_default().push((s, desc.join(" ")));
            }
        } else if let Some(rest) = line.strip_prefix("fixed:") {
            let mut prop = None;
            for w in rest.split_whitespace() {
                if let Some(p) = w.strip_prefix("property=") {
                    prop = Some(p.to_string());
                }
            }
            if let Some(p) = prop {
                k.fixed.entry(p).or_default().push(rest.trim().to_string());
            }
        }
    }
    k
}

impl Known {
    pub fn lookup(&self, property: &str, sig: &str) -> Option<&str> {
        self.known
            .get(property)?
            .iter()
            .find(|(s, _)| s == sig)
            .map(|(_, d)| d.as_str())
    }
}
