//! Process-level static partition: W single-threaded worker processes, worker
//! k owning the indices `k, k+W, ..`. Unlike threads, processes share no
//! library state (statics, caches), so what a worker observes is a function
//! of the seed and its slice alone and can be replayed in a fresh process.
//!
//! Protocol: the coordinator re-executes its own binary with
//! `--worker-proc <phase> <k> <W>` followed by the original arguments; the
//! child prints one line `RESULT <json>` on stdout and exits 0.

use serde_json::Value;
use std::process::{Command, Stdio};

pub struct WorkerResult {
    pub index: u64,
    pub result: Result<Value, String>,
}

pub fn run_phase(phase: &str, workers: u64, passthrough: &[String]) -> Vec<WorkerResult> {
    let exe = match std::env::current_exe() {
        Ok(e) => e,
        Err(e) => {
            return vec![WorkerResult {
                index: 0,
                result: Err(format!("current_exe: {e}")),
            }]
        }
    };
    let mut children = Vec::new();
    for k in 0..workers {
        let child = Command::new(&exe)
            .arg("--worker-proc")
            .arg(phase)
            .arg(k.to_string())
            .arg(workers.to_string())
            .args(passthrough)
            .stdout(Stdio::piped())
            .stderr(Stdio::piped())
            .spawn();
        children.push((k, child));
    }
    let mut out = Vec::new();
    for (k, child) in children {
        let result = match child {
            Err(e) => Err(format!("spawn: {e}")),
            Ok(c) => match c.wait_with_output() {
                Err(e) => Err(format!("wait: {e}")),
                Ok(o) => {
                    let text = String::from_utf8_lossy(&o.stdout);
                    let parsed = text
                        .lines()
                        .find_map(|l| l.strip_prefix("RESULT "))
                        .and_then(|s| serde_json::from_str::<Value>(s).ok());
                    match (o.status.success(), parsed) {
                        (true, Some(v)) => Ok(v),
                        _ => {
                            let err = String::from_utf8_lossy(&o.stderr);
                            let tail: Vec<&str> = err.lines().rev().take(4).collect();
                            Err(format!(
                                "worker {k} of phase {phase} failed: {:?}; stderr tail: {}",
                                o.status,
                                tail.into_iter().rev().collect::<Vec<_>>().join(" | ")
                            ))
                        }
                    }
                }
            },
        };
        out.push(WorkerResult { index: k, result });
    }
    out
}

/// Scratch directory for files handed from workers to the coordinator.
pub fn scratch_dir() -> std::path::PathBuf {
    let d = crate::verif_root().join("sim").join("target").join("scratch");
    let _ = std::fs::create_dir_all(&d);
    d
}

pub fn write_u64s(path: &std::path::Path, items: impl Iterator<Item = u64>) -> std::io::Result<()> {
    use std::io::Write;
    let mut f = std::io::BufWriter::new(std::fs::File::create(path)?);
    for x in items {
        f.write_all(&x.to_le_bytes())?;
    }
    f.flush()
}

pub fn read_u64s(path: &std::path::Path) -> std::io::Result<Vec<u64>> {
    let b = std::fs::read(path)?;
    Ok(b.chunks_exact(8).map(|c| u64::from_le_bytes(c.try_into().unwrap())).collect())
}
