//! Shared simulator pieces: PRNG, hashing, independent calendar, parallel
//! run pool, evidence writer, known-findings reader.

pub mod civil;
pub mod envswarm;
pub mod evidence;
pub mod known;
pub mod miri;
pub mod pool;
pub mod procpool;
pub mod rng;

/// Default seed: fixed so that the unchanged tree sees the same executions
/// on every invocation.
pub const DEFAULT_SEED: u64 = 20261002;

pub fn seed_from_env() -> u64 {
    match std::env::var("VERIF_SEED") {
        Ok(s) => s.trim().parse::<u64>().unwrap_or_else(|_| {
            // accept negative / huge integers by hashing the text
            let mut h = Fnv::new();
            h.write(s.as_bytes());
            h.finish()
        }),
        Err(_) => DEFAULT_SEED,
    }
}

/// FNV-1a 64.
#[derive(Clone, Copy)]
pub struct Fnv(u64);

impl Default for Fnv {
    fn default() -> Self {
        Self::new()
    }
}

impl Fnv {
    pub const fn new() -> Self {
        Fnv(0xcbf29ce484222325)
    }
    #[inline]
    pub fn write(&mut self, bytes: &[u8]) {
        for b in bytes {
            self.0 ^= *b as u64;
            self.0 = self.0.wrapping_mul(0x100000001b3);
        }
    }
    #[inline]
    pub fn write_u64(&mut self, v: u64) {
        self.write(&v.to_le_bytes());
    }
    #[inline]
    pub fn write_i64(&mut self, v: i64) {
        self.write(&v.to_le_bytes());
    }
    pub fn finish(&self) -> u64 {
        self.0
    }
}

/// Exit codes shared by all checks.
pub const EXIT_OK: i32 = 0;
pub const EXIT_VIOLATION: i32 = 1;
pub const EXIT_HARNESS: i32 = 2;

/// Monotonic wall time in seconds, read with a raw syscall so that it is not
/// affected by a `clock_gettime` symbol interposed by a harness binary.
/// Used for `wall_s` reporting only; never in a decision path.
pub fn real_monotonic_s() -> f64 {
    #[repr(C)]
    struct Ts {
        sec: i64,
        nsec: i64,
    }
    extern "C" {
        fn syscall(num: i64, ...) -> i64;
    }
    let mut ts = Ts { sec: 0, nsec: 0 };
    // SYS_clock_gettime = 228 on x86_64, CLOCK_MONOTONIC = 1
    #[cfg(target_arch = "x86_64")]
    const SYS_CLOCK_GETTIME: i64 = 228;
    #[cfg(target_arch = "aarch64")]
    const SYS_CLOCK_GETTIME: i64 = 113;
    unsafe {
        syscall(SYS_CLOCK_GETTIME, 1i64, &mut ts as *mut Ts);
    }
    ts.sec as f64 + ts.nsec as f64 * 1e-9
}

pub fn verif_root() -> std::path::PathBuf {
    std::env::var_os("VERIF_ROOT")
        .map(std::path::PathBuf::from)
        .unwrap_or_else(|| std::path::PathBuf::from("/verif"))
}
