//! Independent proleptic-Gregorian calendar used by the oracles. Written from
//! the era/day-of-era decomposition (not the repository's Julian-day formulas)
//! so that a wrong constant or formula in the library cannot make the oracle
//! agree with it.

pub const SECS_PER_DAY: i64 = 86_400;
pub const USECS_PER_DAY: i64 = 86_400_000_000;

/// Documented ranges, coded from the documentation, not imported.
pub const DATE_MIN_DAYS: i64 = -719_162; // 0001-01-01
pub const DATE_MAX_DAYS: i64 = 2_932_896; // 9999-12-31
pub const TS_MIN_USECS: i64 = DATE_MIN_DAYS * USECS_PER_DAY;
pub const TS_MAX_USECS: i64 = (DATE_MAX_DAYS + 1) * USECS_PER_DAY - 1;
pub const ORACLE_MAX_USECS: i64 = (DATE_MAX_DAYS + 1) * USECS_PER_DAY - 1_000_000;
pub const IYM_MAX_MONTHS: i64 = 178_000_000 * 12;
pub const IDT_MAX_USECS: i64 = 100_000_000 * USECS_PER_DAY;

#[inline]
pub fn is_leap(y: i64) -> bool {
    (y % 4 == 0 && y % 100 != 0) || y % 400 == 0
}

#[inline]
pub fn days_in_month(y: i64, m: u32) -> u32 {
    match m {
        1 | 3 | 5 | 7 | 8 | 10 | 12 => 31,
        4 | 6 | 9 | 11 => 30,
        2 => {
            if is_leap(y) {
                29
            } else {
                28
            }
        }
        _ => 0,
    }
}

/// Days since 1970-01-01 of a civil date (valid for any year).
pub fn days_from_civil(y: i64, m: u32, d: u32) -> i64 {
    let y = if m <= 2 { y - 1 } else { y };
    let era = if y >= 0 { y } else { y - 399 } / 400;
    let yoe = y - era * 400; // [0, 399]
    let mp = (m as i64 + 9) % 12; // March = 0
    let doy = (153 * mp + 2) / 5 + d as i64 - 1; // [0, 365]
    let doe = yoe * 365 + yoe / 4 - yoe / 100 + doy; // [0, 146096]
    era * 146_097 + doe - 719_468
}

/// Civil date of a day count since 1970-01-01.
pub fn civil_from_days(z: i64) -> (i64, u32, u32) {
    let z = z + 719_468;
    let era = if z >= 0 { z } else { z - 146_096 } / 146_097;
    let doe = z - era * 146_097; // [0, 146096]
    let yoe = (doe - doe / 1460 + doe / 36_524 - doe / 146_096) / 365; // [0, 399]
    let y = yoe + era * 400;
    let doy = doe - (365 * yoe + yoe / 4 - yoe / 100); // [0, 365]
    let mp = (5 * doy + 2) / 153; // [0, 11]
    let d = (doy - (153 * mp + 2) / 5 + 1) as u32;
    let m = if mp < 10 { mp + 3 } else { mp - 9 } as u32;
    (if m <= 2 { y + 1 } else { y }, m, d)
}

/// 1 = Sunday .. 7 = Saturday.
pub fn weekday_sun1(days_since_epoch: i64) -> u32 {
    // 1970-01-01 was a Thursday (5).
    ((days_since_epoch + 4).rem_euclid(7) + 1) as u32
}

pub fn valid_ymd(y: i64, m: u32, d: u32) -> bool {
    (1..=9999).contains(&y) && (1..=12).contains(&m) && d >= 1 && d <= days_in_month(y, m)
}

/// (month, day) of the `doy`-th day of year `y`; None if out of range.
pub fn month_day_of_doy(y: i64, doy: u32) -> Option<(u32, u32)> {
    let max = if is_leap(y) { 366 } else { 365 };
    if doy == 0 || doy > max {
        return None;
    }
    let mut rest = doy;
    for m in 1..=12u32 {
        let dim = days_in_month(y, m);
        if rest <= dim {
            return Some((m, rest));
        }
        rest -= dim;
    }
    None
}

pub const MONTH_FULL: [&str; 12] = [
    "January",
    "February",
    "March",
    "April",
    "May",
    "June",
    "July",
    "August",
    "September",
    "October",
    "November",
    "December",
];
pub const WEEKDAY_FULL: [&str; 7] = [
    "Sunday",
    "Monday",
    "Tuesday",
    "Wednesday",
    "Thursday",
    "Friday",
    "Saturday",
];

#[cfg(test)]
mod tests {
    use super::*;
    #[test]
    fn roundtrip() {
        let mut prev = civil_from_days(DATE_MIN_DAYS - 800);
        for z in (DATE_MIN_DAYS - 799)..=(DATE_MAX_DAYS + 800) {
            let c = civil_from_days(z);
            assert_eq!(days_from_civil(c.0, c.1, c.2), z);
            // successor relation
            let (y, m, d) = prev;
            let next = if d < days_in_month(y, m) {
                (y, m, d + 1)
            } else if m < 12 {
                (y, m + 1, 1)
            } else {
                (y + 1, 1, 1)
            };
            assert_eq!(c, next);
            prev = c;
        }
        assert_eq!(civil_from_days(0), (1970, 1, 1));
        assert_eq!(civil_from_days(DATE_MIN_DAYS), (1, 1, 1));
        assert_eq!(civil_from_days(DATE_MAX_DAYS), (9999, 12, 31));
        assert_eq!(weekday_sun1(0), 5);
        assert_eq!(weekday_sun1(days_from_civil(2026, 10, 2)), 6); // Friday
    }
}
