//! Driver for scenarios that run real threads under Miri's seeded scheduler:
//! `-Zmiri-many-seeds=a..b -Zmiri-preemption-rate=p` fixes the interleavings, so
//! (miri seed, rate, workload seed) is one exactly repeatable execution.

use serde_json::Value;
use std::process::Command;


pub struct MiriResult {
    pub seeds_run: u64,
    pub failure: Option<(u64, String, String)>, // (miri seed, preemption rate, output tail)
    pub wall_s: f64,
    pub skipped: Option<String>,
}

fn miri_cmd(pkg: &str, bin: &str, seed_lo: u64, seed_hi: u64, rate: &str, workload: u64, extra: &[String]) -> Command {
    let sim = crate::verif_root().join("sim");
    let mut c = Command::new("cargo");
    c.current_dir(&sim)
        .arg("+nightly")
        .arg("miri")
        .arg("run")
        .arg("--offline")
        .arg("-q")
        .arg("-p")
        .arg(pkg)
        .arg("--bin")
        .arg(bin)
        .arg("--")
        .arg(workload.to_string())
        .args(extra)
        .env(
            "MIRIFLAGS",
            format!("-Zmiri-many-seeds={}..{} -Zmiri-preemption-rate={} -Zmiri-disable-isolation", seed_lo, seed_hi, rate),
        )
        .env("CARGO_NET_OFFLINE", "true")
        .env("CARGO_TARGET_DIR", sim.join("target").join(format!("miri-{pkg}")));
    c
}

pub fn run(pkg: &str, bin: &str, seeds: u64, rates: &[&str], workload: u64) -> MiriResult {
    run_with(pkg, bin, seeds, rates, workload, &[])
}

/// `extra`: further command-line arguments of the scenario binary (after the workload seed).
pub fn run_with(pkg: &str, bin: &str, seeds: u64, rates: &[&str], workload: u64, extra: &[String]) -> MiriResult {
    let t0 = crate::real_monotonic_s();
    let mut total = 0;
    for rate in rates {
        let out = miri_cmd(pkg, bin, 0, seeds, rate, workload, extra).output();
        let out = match out {
            Ok(o) => o,
            Err(e) => {
                return MiriResult { seeds_run: total, failure: None, wall_s: crate::real_monotonic_s() - t0, skipped: Some(format!("cannot start cargo miri: {e}")) }
            }
        };
        let text = format!("{}{}", String::from_utf8_lossy(&out.stdout), String::from_utf8_lossy(&out.stderr));
        if out.status.success() {
            total += seeds;
            continue;
        }
        if text.contains("error: could not compile") || text.contains("no such command") || text.contains("is not installed") {
            return MiriResult { seeds_run: total, failure: None, wall_s: crate::real_monotonic_s() - t0, skipped: Some(format!("miri build failed: {}", tail(&text, 1200))) };
        }
        // find the failing seed: many-seeds prints "Trying seed: N" or similar; bisect by single seeds
        for s in 0..seeds {
            let o = miri_cmd(pkg, bin, s, s + 1, rate, workload, extra).output();
            if let Ok(o) = o {
                if !o.status.success() {
                    let t = format!("{}{}", String::from_utf8_lossy(&o.stdout), String::from_utf8_lossy(&o.stderr));
                    return MiriResult { seeds_run: total + s, failure: Some((s, rate.to_string(), tail(&t, 2500))), wall_s: crate::real_monotonic_s() - t0, skipped: None };
                }
            }
        }
        return MiriResult { seeds_run: total, failure: None, wall_s: crate::real_monotonic_s() - t0, skipped: Some(format!("many-seeds run failed but no single seed reproduces: {}", tail(&text, 1200))) };
    }
    MiriResult { seeds_run: total, failure: None, wall_s: crate::real_monotonic_s() - t0, skipped: None }
}

fn tail(s: &str, n: usize) -> String {
    let chars: Vec<char> = s.chars().collect();
    chars[chars.len().saturating_sub(n)..].iter().collect()
}

pub fn replay(property: &str, pkg: &str, bin: &str, v: &Value, path: &str) -> i32 {
    let seed = v["miri_seed"].as_u64().unwrap_or(0);
    let rate = v["preemption_rate"].as_str().unwrap_or("0.1").to_string();
    let workload = v["workload_seed"].as_u64().unwrap_or(0);
    let extra: Vec<String> = v["extra_args"].as_array().map(|a| a.iter().filter_map(|x| x.as_str().map(|s| s.to_string())).collect()).unwrap_or_default();
    match miri_cmd(pkg, bin, seed, seed + 1, &rate, workload, &extra).output() {
        Ok(o) if o.status.success() => {
            println!("no violation on this tree");
            crate::EXIT_OK
        }
        Ok(o) => {
            println!("{}", tail(&String::from_utf8_lossy(&o.stderr), 2000));
            println!("VIOLATION property={} replay={}", property, path);
            crate::EXIT_VIOLATION
        }
        Err(e) => {
            eprintln!("harness error: {e}");
            crate::EXIT_HARNESS
        }
    }
}
