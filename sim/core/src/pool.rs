//! Static-partition parallel runner. Worker `w` of `W` owns run indices
//! `w, w+W, w+2W, ..`; runs share nothing; accumulators are merged with a
//! commutative merge, so the worker count cannot change any result.

use std::sync::atomic::{AtomicU64, Ordering};

pub trait Merge {
    fn merge(&mut self, other: Self);
}

pub fn default_workers() -> usize {
    if let Ok(s) = std::env::var("VERIF_WORKERS") {
        if let Ok(n) = s.trim().parse::<usize>() {
            if n >= 1 {
                return n;
            }
        }
    }
    std::thread::available_parallelism().map(|n| n.get()).unwrap_or(4)
}

/// Shared "lowest violating run index so far". Workers skip indices above it,
/// so every index below the reported one has been executed and the reported
/// violation is the same one regardless of thread timing.
pub struct Cutoff(AtomicU64);

impl Cutoff {
    pub fn new() -> Self {
        Cutoff(AtomicU64::new(u64::MAX))
    }
    pub fn lower_to(&self, idx: u64) {
        self.0.fetch_min(idx, Ordering::SeqCst);
    }
    pub fn get(&self) -> u64 {
        self.0.load(Ordering::SeqCst)
    }
}

impl Default for Cutoff {
    fn default() -> Self {
        Self::new()
    }
}

pub fn run_parallel<A, F>(n: u64, workers: usize, f: F) -> A
where
    A: Default + Send + Merge,
    F: Fn(u64, &mut A, &Cutoff) + Sync,
{
    let workers = workers.max(1).min(n.max(1) as usize);
    let cutoff = Cutoff::new();
    let mut accs: Vec<A> = Vec::new();
    std::thread::scope(|s| {
        let mut handles = Vec::new();
        for w in 0..workers {
            let f = &f;
            let cutoff = &cutoff;
            handles.push(
                std::thread::Builder::new()
                    .stack_size(16 << 20)
                    .spawn_scoped(s, move || {
                        let mut acc = A::default();
                        let mut i = w as u64;
                        while i < n {
                            if i <= cutoff.get() {
                                f(i, &mut acc, cutoff);
                            }
                            i += workers as u64;
                        }
                        acc
                    })
                    .expect("spawn worker"),
            );
        }
        for h in handles {
            accs.push(h.join().expect("worker thread panicked (harness bug)"));
        }
    });
    let mut total = A::default();
    for a in accs {
        total.merge(a);
    }
    total
}

/// Mix a run index with its log hash into an order-independent batch hash
/// contribution (combined with wrapping add).
#[inline]
pub fn batch_mix(index: u64, run_hash: u64) -> u64 {
    let mut x = index.wrapping_mul(0x9E3779B97F4A7C15) ^ run_hash;
    x = (x ^ (x >> 32)).wrapping_mul(0xD6E8FEB86659FD93);
    x = (x ^ (x >> 32)).wrapping_mul(0xD6E8FEB86659FD93);
    x ^ (x >> 32)
}
