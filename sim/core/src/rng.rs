//! splitmix64 + xoshiro256**. Every choice in a simulated run is drawn from
//! one `Rng` seeded from (VERIF_SEED, property tag, run index).

#[inline]
pub fn splitmix64(state: &mut u64) -> u64 {
    *state = state.wrapping_add(0x9E3779B97F4A7C15);
    let mut z = *state;
    z = (z ^ (z >> 30)).wrapping_mul(0xBF58476D1CE4E5B9);
    z = (z ^ (z >> 27)).wrapping_mul(0x94D049BB133111EB);
    z ^ (z >> 31)
}

#[derive(Clone, Debug)]
pub struct Rng {
    s: [u64; 4],
}

impl Rng {
    pub fn new(seed: u64) -> Self {
        let mut sm = seed;
        let s = [
            splitmix64(&mut sm),
            splitmix64(&mut sm),
            splitmix64(&mut sm),
            splitmix64(&mut sm),
        ];
        Rng { s }
    }

    /// Generator for run `index` of the batch identified by `tag` under `seed`.
    pub fn for_run(seed: u64, tag: u64, index: u64) -> Self {
        let mut st = seed ^ tag.rotate_left(17) ^ index.wrapping_mul(0xD6E8FEB86659FD93);
        let a = splitmix64(&mut st);
        Rng::new(a ^ index)
    }

    #[inline]
    pub fn next_u64(&mut self) -> u64 {
        let result = self.s[1].wrapping_mul(5).rotate_left(7).wrapping_mul(9);
        let t = self.s[1] << 17;
        self.s[2] ^= self.s[0];
        self.s[3] ^= self.s[1];
        self.s[1] ^= self.s[2];
        self.s[0] ^= self.s[3];
        self.s[2] ^= t;
        self.s[3] = self.s[3].rotate_left(45);
        result
    }

    /// Uniform in 0..n (n > 0).
    #[inline]
    pub fn below(&mut self, n: u64) -> u64 {
        debug_assert!(n > 0);
        // multiply-shift; bias is irrelevant here
        ((self.next_u64() as u128 * n as u128) >> 64) as u64
    }

    #[inline]
    pub fn usize_below(&mut self, n: usize) -> usize {
        self.below(n as u64) as usize
    }

    /// Uniform in lo..=hi.
    #[inline]
    pub fn range_i64(&mut self, lo: i64, hi: i64) -> i64 {
        debug_assert!(lo <= hi);
        let span = (hi as i128 - lo as i128 + 1) as u128;
        if span > u64::MAX as u128 {
            return self.next_u64() as i64;
        }
        (lo as i128 + self.below(span as u64) as i128) as i64
    }

    /// True with probability num/den.
    #[inline]
    pub fn chance(&mut self, num: u64, den: u64) -> bool {
        self.below(den) < num
    }

    #[inline]
    pub fn pick<'a, T>(&mut self, items: &'a [T]) -> &'a T {
        &items[self.usize_below(items.len())]
    }

    #[inline]
    pub fn bool(&mut self) -> bool {
        self.next_u64() & 1 == 1
    }
}

/// Stable 64-bit tag from a short name.
pub const fn tag(name: &str) -> u64 {
    let b = name.as_bytes();
    let mut h: u64 = 0xcbf29ce484222325;
    let mut i = 0;
    while i < b.len() {
        h ^= b[i] as u64;
        h = h.wrapping_mul(0x100000001b3);
        i += 1;
    }
    h
}
