//! Evidence and replay file writing (atomic: temp file + rename).

use serde_json::Value;
use std::io::Write;
use std::path::Path;

pub fn write_json_atomic(path: &Path, v: &Value) -> std::io::Result<()> {
    if let Some(dir) = path.parent() {
        std::fs::create_dir_all(dir)?;
    }
    let tmp = path.with_extension("json.tmp");
    {
        let mut f = std::fs::File::create(&tmp)?;
        let s = serde_json::to_string_pretty(v).expect("json");
        f.write_all(s.as_bytes())?;
        f.write_all(b"\n")?;
        f.sync_all().ok();
    }
    std::fs::rename(&tmp, path)
}

pub fn read_json(path: &Path) -> Result<Value, String> {
    let s = std::fs::read_to_string(path).map_err(|e| format!("{}: {}", path.display(), e))?;
    serde_json::from_str(&s).map_err(|e| format!("{}: {}", path.display(), e))
}
