//! The process environment as a seam. Worker process k of a check runs with a
//! seeded set of environment variables of the kind that date/time software
//! consults (Oracle NLS settings, locale, date styles, reproducible-build and
//! fake-time variables): even-numbered workers with none of them, odd-numbered
//! ones with a seeded subset and seeded values. `TZ` is never touched (the
//! checks fix it themselves). The plan is a function of (VERIF_SEED, k) only;
//! it is written into every replay file and re-installed before a replay.
//!
//! On a tree that does not read the environment (the current one) this changes
//! nothing; a change that makes a result depend on the environment meets both
//! kinds of worker.

use crate::rng::{tag, Rng};
use serde_json::{json, Value};
use std::sync::Mutex;

const FORMATS: [&str; 10] = [
    "DD-MON-YYYY", "YYYY-MM-DD", "YYYY/MM/DD HH24:MI", "DD-MON-RR", "MM/DD/YYYY HH:MI:SS AM", "YYYY-MM-DD HH24:MI:SS", "DD.MM.YYYY",
    "YYYY-MM-DD\"T\"HH24:MI:SS", "garbage", "",
];
const LOCALES: [&str; 8] = ["tr_TR.UTF-8", "de_DE.UTF-8", "C", "POSIX", "en_US.UTF-8", "ar_SA.UTF-8", "ja_JP.eucJP", ""];

/// (name, candidate values)
fn table() -> Vec<(&'static str, Vec<&'static str>)> {
    let f = FORMATS.to_vec();
    let l = LOCALES.to_vec();
    vec![
        ("NLS_DATE_FORMAT", f.clone()),
        ("NLS_TIMESTAMP_FORMAT", vec!["DD-MON-RR HH.MI.SSXFF AM", "YYYY-MM-DD HH24:MI:SS.FF", "YYYY-MM-DD HH24:MI:SS.FF3", "YYYY-MM-DD HH24:MI"]),
        ("NLS_TIME_FORMAT", vec!["HH.MI.SSXFF AM", "HH24:MI:SS", "HH24:MI"]),
        ("NLS_LANG", vec!["AMERICAN_AMERICA.AL32UTF8", "TURKISH_TURKEY.WE8ISO8859P9", "GERMAN_GERMANY.UTF8"]),
        ("NLS_DATE_LANGUAGE", vec!["TURKISH", "GERMAN", "AMERICAN", "JAPANESE"]),
        ("NLS_TERRITORY", vec!["TURKEY", "AMERICA", "GERMANY"]),
        ("NLS_CALENDAR", vec!["GREGORIAN", "Japanese Imperial", "Thai Buddha"]),
        ("ORA_SDTZ", vec!["+05:45", "UTC", "-03:30", "Asia/Kathmandu"]),
        ("LANG", l.clone()),
        ("LC_ALL", l.clone()),
        ("LC_TIME", l.clone()),
        ("LC_NUMERIC", l.clone()),
        ("LANGUAGE", vec!["tr", "de:en", "ar"]),
        ("PGDATESTYLE", vec!["ISO, DMY", "SQL, MDY", "German", "Postgres, YMD"]),
        ("DATESTYLE", vec!["ISO, DMY", "SQL, MDY", "German"]),
        ("DATEMSK", vec!["/nonexistent/datemsk", ""]),
        ("DATE_FORMAT", f.clone()),
        ("TIME_FORMAT", vec!["HH24:MI", "HH:MI AM", "HH24:MI:SS"]),
        ("TIMESTAMP_FORMAT", f.clone()),
        ("SQLDATETIME_FORMAT", f.clone()),
        ("SQLDATETIME_DATE_FORMAT", f),
        ("SOURCE_DATE_EPOCH", vec!["0", "253402300800", "-1", "946684799"]),
        ("FAKETIME", vec!["1999-12-31 23:59:59", "@2000-02-29 00:00:00", "+10y"]),
        ("CHRONO_TZ", vec!["UTC", "Asia/Kathmandu"]),
        ("TZDIR", vec!["/nonexistent/zoneinfo"]),
    ]
}

/// For every known name: Some(value) to set it, None to remove it.
pub type Plan = Vec<(String, Option<String>)>;

pub fn baseline() -> Plan {
    table().into_iter().map(|(n, _)| (n.to_string(), None)).collect()
}

pub fn plan(seed: u64, worker: u64) -> Plan {
    if worker % 2 == 0 {
        return baseline();
    }
    let mut rng = Rng::for_run(seed, tag("env-swarm"), worker);
    table()
        .into_iter()
        .map(|(n, vals)| {
            let v = if rng.bool() { Some(rng.pick(&vals).to_string()) } else { None };
            (n.to_string(), v)
        })
        .collect()
}

static INSTALLED: Mutex<Vec<(String, String)>> = Mutex::new(Vec::new());

/// Applies the plan to this process. Call before any other thread exists.
pub fn install(plan: &Plan) {
    let mut set = Vec::new();
    for (name, v) in plan {
        match v {
            Some(v) => {
                std::env::set_var(name, v);
                set.push((name.clone(), v.clone()));
            }
            None => std::env::remove_var(name),
        }
    }
    if let Ok(mut g) = INSTALLED.lock() {
        *g = set;
    }
}

/// What is installed in this process, for replay files: {"NAME": "value", ..}.
pub fn installed_json() -> Value {
    let g = INSTALLED.lock().map(|g| g.clone()).unwrap_or_default();
    let mut m = serde_json::Map::new();
    for (k, v) in g {
        m.insert(k, json!(v));
    }
    Value::Object(m)
}

/// Re-installs what a replay file recorded (everything else on the list is removed).
pub fn install_from_json(v: &Value) {
    let mut p = baseline();
    if let Some(m) = v.as_object() {
        for (name, slot) in p.iter_mut() {
            if let Some(val) = m.get(name).and_then(|x| x.as_str()) {
                *slot = Some(val.to_string());
            }
        }
    }
    install(&p);
}

/// For the evidence file: what the swarm did in a run with `workers` worker processes per phase.
pub fn evidence(seed: u64, workers: u64) -> Value {
    let example: serde_json::Map<String, Value> = plan(seed, 1).into_iter().filter_map(|(n, v)| v.map(|v| (n, json!(v)))).collect();
    json!({
        "what": "process environment as a seam: worker process k installs a seeded set of date/locale related environment variables before it touches the crate (even k: none of them; odd k: a seeded subset with seeded values); TZ is never touched; the finder's plan is recorded in replay files and re-installed on replay",
        "variable_names": table().len(),
        "worker_processes_per_phase": workers,
        "of_which_with_variables_set": workers / 2,
        "plan_of_worker_1": example,
    })
}
