//! Seeded workload and fault-schedule generator (swarm style: every run draws
//! its own mix of clock faults, tick sizes and picture features).

use crate::clock::Reading;
use crate::model::local_fields;
use crate::script::*;
use simcore::civil::*;
use simcore::rng::Rng;

pub const MIN_SIM_SECS: i64 = -62_325_000_000; // about year -5
pub const MAX_SIM_SECS: i64 = 569_200_000_000; // about year 20007

#[derive(Clone, Debug)]
pub struct Swarm {
    pub ev_step: bool,
    pub ev_land: bool,
    pub ev_offset: bool,
    pub ev_leap: bool,
    pub ev_oor: bool,
    pub ev_stall: bool,
    pub tick_pool: Vec<u64>,
    pub names: bool,
    pub doy: bool,
    pub weekday: bool,
    pub truncation: bool,
    pub extra_blanks: bool,
    pub invalid_rate: u64, // per 100
    pub types: Vec<Ty>,
    pub op_share: u64, // per 100 events
    pub n_events: usize,
}

pub fn utc_of_local(y: i64, m: u32, d: u32, sod: i64, offset: i32) -> i64 {
    days_from_civil(y, m, d) * SECS_PER_DAY + sod - offset as i64
}

const OFFSETS: [i32; 16] = [
    0, 0, 3600, -3600, 7200, -18000, 19800, 20700, -12600, 45900, 50400, -43200, 32400, -28800,
    1172, -9000,
];

pub fn draw_swarm(rng: &mut Rng) -> Swarm {
    let all_ticks: [u64; 7] = [0, 1, 1_000, 1_000_000, 1_000_000_000, 60_000_000_000, 3_600_000_000_000];
    let mut tick_pool = Vec::new();
    match rng.below(5) {
        0 => tick_pool.push(0),
        1 => {
            tick_pool.push(1);
            tick_pool.push(1_000);
        }
        2 => {
            tick_pool.push(1_000_000);
            tick_pool.push(1_000_000_000);
        }
        _ => {
            for t in all_ticks.iter().take(5) {
                tick_pool.push(*t);
            }
            if rng.chance(1, 4) {
                tick_pool.push(all_ticks[5]);
                tick_pool.push(all_ticks[6]);
            }
        }
    }
    let mut types = Vec::new();
    for (ty, w) in [(Ty::Timestamp, 4), (Ty::Date, 3), (Ty::Oracle, 3), (Ty::Time, 1)] {
        if rng.chance(4, 5) {
            for _ in 0..w {
                types.push(ty);
            }
        }
    }
    if types.is_empty() {
        types.push(Ty::Timestamp);
    }
    Swarm {
        ev_step: rng.chance(2, 3),
        ev_land: rng.chance(3, 4),
        ev_offset: rng.chance(1, 2),
        ev_leap: rng.chance(1, 4),
        ev_oor: rng.chance(1, 5),
        ev_stall: rng.chance(1, 3),
        tick_pool,
        names: rng.chance(2, 3),
        doy: rng.chance(1, 2),
        weekday: rng.chance(1, 2),
        truncation: rng.chance(2, 3),
        extra_blanks: rng.chance(1, 3),
        invalid_rate: *rng.pick(&[0u64, 3, 8, 20]),
        types,
        op_share: *rng.pick(&[50u64, 65, 80]),
        n_events: 8 + rng.usize_below(36),
    }
}

/// (utc secs, nanos, offset) of the run's initial clock.
pub fn draw_start(rng: &mut Rng) -> (i64, u32, i32) {
    // a third of the runs start in the process time zone, where unhooked clock
    // reads (chrono::Local over clock_gettime) are comparable with hooked ones
    let offset = if rng.chance(1, 3) {
        crate::clock::process_offset()
    } else {
        *rng.pick(&OFFSETS)
    };
    let nanos = match rng.below(4) {
        0 => 0,
        1 => 999_999_999,
        2 => 999_999_000,
        _ => rng.below(1_000_000_000) as u32,
    };
    let secs = match rng.below(10) {
        0..=3 => {
            // uniform over the supported days
            let day = rng.range_i64(DATE_MIN_DAYS, DATE_MAX_DAYS);
            day * SECS_PER_DAY + rng.range_i64(0, 86_399) - offset as i64
        }
        4 | 5 => {
            // modern era
            let day = rng.range_i64(0, 47_500);
            day * SECS_PER_DAY + rng.range_i64(0, 86_399)
        }
        _ => {
            let (secs, _) = draw_boundary(rng, 2000, offset);
            secs - *rng.pick(&[0i64, 1, 1, 2, 60, 86_400])
        }
    };
    (secs.clamp(MIN_SIM_SECS, MAX_SIM_SECS), nanos, offset)
}

/// A local-time boundary expressed as the UTC second at which it occurs.
/// Returns (utc secs of the boundary, class id).
pub fn draw_boundary(rng: &mut Rng, around_year: i64, offset: i32) -> (i64, u8) {
    let year = if rng.chance(1, 2) {
        (around_year + rng.range_i64(-2, 2)).clamp(1, 10_000)
    } else {
        rng.range_i64(1, 10_000)
    };
    let class = rng.below(9) as u8;
    let secs = match class {
        0 => {
            // midnight of a random day
            let y = year.min(9999);
            let m = 1 + rng.below(12) as u32;
            let d = 1 + rng.below(days_in_month(y, m) as u64) as u32;
            utc_of_local(y, m, d, 0, offset)
        }
        1 => {
            // month end
            let y = year.min(9999);
            let m = 1 + rng.below(12) as u32;
            utc_of_local(y, m, 1, 0, offset)
        }
        2 => {
            // 28 Feb -> 29 Feb or 1 Mar
            let y = year.min(9999);
            utc_of_local(y, 2, 28, 86_400, offset)
        }
        3 => {
            // 29 Feb (leap) / 1 Mar -> next
            let y = (year.min(9999) / 4 * 4).max(4);
            utc_of_local(y, 3, 1, 0, offset)
        }
        4 => utc_of_local(year, 1, 1, 0, offset),
        5 => utc_of_local((year / 10 * 10).max(1), 1, 1, 0, offset),
        6 => utc_of_local((year / 100 * 100).max(1), 1, 1, 0, offset),
        7 => utc_of_local((year / 1000 * 1000).max(1), 1, 1, 0, offset),
        _ => {
            if rng.bool() {
                utc_of_local(10_000, 1, 1, 0, offset)
            } else {
                utc_of_local(1, 1, 1, 0, offset)
            }
        }
    };
    (secs, class)
}

fn rand_case(rng: &mut Rng, s: &str) -> String {
    match rng.below(4) {
        0 => s.to_ascii_uppercase(),
        1 => s.to_ascii_lowercase(),
        2 => {
            let mut out = String::new();
            for (i, c) in s.chars().enumerate() {
                if i == 0 {
                    out.push(c.to_ascii_uppercase());
                } else {
                    out.push(c.to_ascii_lowercase());
                }
            }
            out
        }
        _ => s
            .chars()
            .map(|c| {
                if rng.bool() {
                    c.to_ascii_uppercase()
                } else {
                    c.to_ascii_lowercase()
                }
            })
            .collect(),
    }
}

fn num_text(rng: &mut Rng, n: u32, width: usize) -> String {
    if rng.chance(2, 3) {
        format!("{:0width$}", n, width = width)
    } else {
        format!("{}", n)
    }
}

fn ticks(rng: &mut Rng, sw: &Swarm) -> [u64; 3] {
    [
        *rng.pick(&sw.tick_pool),
        *rng.pick(&sw.tick_pool),
        *rng.pick(&sw.tick_pool),
    ]
}

pub fn gen_clock_event(rng: &mut Rng, sw: &Swarm, now: &Reading) -> Vec<Ev> {
    let mut kinds: Vec<u8> = vec![0, 0]; // advance always possible
    if sw.ev_step {
        kinds.push(1);
    }
    if sw.ev_land {
        kinds.extend_from_slice(&[2, 2, 2]);
    }
    if sw.ev_offset {
        kinds.push(3);
    }
    if sw.ev_leap {
        kinds.push(4);
    }
    if sw.ev_oor {
        kinds.push(5);
    }
    if sw.ev_stall {
        kinds.push(6);
    }
    let l = local_fields(now);
    match *rng.pick(&kinds) {
        0 => {
            let unit = *rng.pick(&[
                1u64,
                1_000,
                1_000_000,
                1_000_000_000,
                60_000_000_000,
                3_600_000_000_000,
                86_400_000_000_000,
                2_592_000_000_000_000,
            ]);
            vec![Ev::Advance {
                ns: unit.saturating_mul(1 + rng.below(40)),
            }]
        }
        1 => {
            let unit = *rng.pick(&[1i64, 60, 3600, 86_400, 2_629_746, 31_556_952, 3_155_695_200]);
            let mag = unit.saturating_mul(1 + rng.below(30) as i64);
            vec![Ev::Step {
                secs: if rng.bool() { mag } else { -mag },
            }]
        }
        2 => {
            let (b, class) = draw_boundary(rng, l.y, now.offset);
            let eps_ns: u64 = *rng.pick(&[0u64, 1, 1, 1_000, 1_000, 1_000_000, 1_000_000_000]);
            let (secs, nanos) = if eps_ns == 0 {
                (b, 0)
            } else if eps_ns == 1_000_000_000 {
                (b - 1, 0)
            } else {
                (b - 1, (1_000_000_000 - eps_ns) as u32)
            };
            vec![Ev::SetWall {
                secs,
                nanos,
                kind: 10 + class,
            }]
        }
        3 => {
            if rng.chance(1, 3) {
                vec![Ev::OffsetAfter {
                    reads: 1 + rng.below(2) as u32,
                    secs: *rng.pick(&OFFSETS),
                }]
            } else {
                vec![Ev::Offset {
                    secs: *rng.pick(&OFFSETS),
                }]
            }
        }
        4 => {
            // a UTC day end, 23:59:59, then leap representation on the next reads
            let day = (now.secs.div_euclid(SECS_PER_DAY)).clamp(-719_000, 2_932_000);
            vec![
                Ev::SetWall {
                    secs: day * SECS_PER_DAY + 86_399,
                    nanos: rng.below(1_000_000_000) as u32,
                    kind: 2,
                },
                Ev::Leap {
                    reads: 1 + rng.below(3) as u32,
                },
            ]
        }
        5 => {
            let y = *rng.pick(&[0i64, -1, 10_000, 10_001, 20_000]);
            let m = 1 + rng.below(12) as u32;
            let d = 1 + rng.below(28) as u32;
            vec![Ev::SetWall {
                secs: utc_of_local(y, m, d, rng.range_i64(0, 86_399), now.offset),
                nanos: rng.below(1_000_000_000) as u32,
                kind: 3,
            }]
        }
        _ => vec![Ev::Stall {
            reads: 1 + rng.below(4) as u32,
        }],
    }
}

struct Builder<'a> {
    rng: &'a mut Rng,
    sw: &'a Swarm,
    toks: Vec<Tok>,
}

impl<'a> Builder<'a> {
    fn pad(&mut self, s: String) -> String {
        if self.sw.extra_blanks && self.rng.chance(1, 4) {
            let ws = *self.rng.pick(&[" ", "  ", "\t", " \n"]);
            if self.rng.bool() {
                format!("{ws}{s}")
            } else {
                format!("{s}{ws}")
            }
        } else {
            s
        }
    }
    fn push(&mut self, pic: &str, txt: String, sem: Sem) {
        let pic = if pic == "T" {
            pic.to_string()
        } else {
            rand_case(self.rng, pic)
        };
        let txt = self.pad(txt);
        self.toks.push(Tok { pic, txt, sem });
    }
    fn sep(&mut self, pool: &[u8]) {
        let ch = *self.rng.pick(pool);
        if ch == b' ' {
            let n = *self.rng.pick(&[1usize, 1, 1, 2, 3]);
            let pic = " ".repeat(n);
            // never empty: two texts must not run into each other
            // (any ASCII white space separates fields: blank, TAB, LF, CR LF, FF)
            let txt = match self.rng.below(8) {
                0 => "\t".to_string(),
                1 => "  ".to_string(),
                2 => (*self.rng.pick(&["\n", "\r\n", "\x0c", " \n "])).to_string(),
                _ => " ".to_string(),
            };
            self.toks.push(Tok {
                pic,
                txt,
                sem: Sem::Blank,
            });
        } else {
            let s = (ch as char).to_string();
            let txt = self.pad(s.clone());
            self.toks.push(Tok {
                pic: s,
                txt,
                sem: Sem::Sep { ch },
            });
        }
    }
}

const SEPS_ANY: [u8; 10] = [b'-', b'-', b'/', b' ', b' ', b':', b'.', b',', b';', b'-'];
const SEPS_TOLERANT: [u8; 5] = [b':', b':', b'.', b' ', b'-'];

pub fn gen_parse(rng: &mut Rng, sw: &Swarm, now: &Reading) -> OpKind {
    let ty = *rng.pick(&sw.types);
    let l = local_fields(now);
    let invalid = |rng: &mut Rng| rng.below(100) < sw.invalid_rate;

    // --- date components ---
    #[derive(Clone, Copy)]
    enum D {
        Year,
        Month,
        Day,
        Doy,
        Wd,
    }
    let mut date_parts: Vec<D> = Vec::new();
    let year_kind = match rng.below(100) {
        0..=29 => 0u8,
        30..=37 => 1,
        38..=52 => 2,
        53..=60 => 3,
        _ => 4,
    };
    let month_kind = match rng.below(100) {
        0..=34 => 0u8,
        35..=69 => 1,
        70..=84 => 2,
        _ => 3,
    };
    let has_day = rng.chance(7, 10);
    let has_doy = sw.doy && rng.chance(1, 8);
    let has_wd = sw.weekday && rng.chance(1, 7);
    if ty != Ty::Time || rng.chance(1, 10) {
        if year_kind > 0 {
            date_parts.push(D::Year);
        }
        if month_kind > 0 {
            date_parts.push(D::Month);
        }
        if has_day {
            date_parts.push(D::Day);
        }
        if has_doy {
            date_parts.push(D::Doy);
        }
        if has_wd {
            date_parts.push(D::Wd);
        }
    }
    // shuffle
    for i in (1..date_parts.len()).rev() {
        let j = rng.usize_below(i + 1);
        date_parts.swap(i, j);
    }

    // component values
    let year_n: u32 = match year_kind {
        4 => match rng.below(10) {
            0 => *rng.pick(&[1u32, 9999, 2000, 1900, 2024, 4, 400, 9996]),
            1 if invalid(rng) => 0,
            _ => 1 + rng.below(9999) as u32,
        },
        k @ 1..=3 => {
            let modulus = 10u64.pow(k as u32);
            match rng.below(4) {
                0 => *rng.pick(&[0u32, (modulus - 1) as u32]),
                _ => rng.below(modulus) as u32,
            }
        }
        _ => 0,
    };
    let month_n: u32 = if invalid(rng) {
        *rng.pick(&[0u32, 13, 99])
    } else {
        match rng.below(5) {
            0 => 2,
            1 => *rng.pick(&[4u32, 6, 9, 11]),
            2 => l.m,
            _ => 1 + rng.below(12) as u32,
        }
    };
    let day_n: u32 = if invalid(rng) {
        *rng.pick(&[0u32, 32, 99])
    } else {
        match rng.below(5) {
            0 | 1 => 28 + rng.below(4) as u32,
            _ => 1 + rng.below(31) as u32,
        }
    };
    let doy_n: u32 = if invalid(rng) {
        *rng.pick(&[0u32, 367, 999])
    } else {
        match rng.below(4) {
            0 => *rng.pick(&[1u32, 59, 60, 61, 365, 366]),
            _ => 1 + rng.below(366) as u32,
        }
    };

    // the date the text "intends" under the clock as it stands, for a plausible weekday
    let intended_wd = {
        let y = match year_kind {
            4 => year_n as i64,
            0 => l.y,
            k => l.y - l.y.rem_euclid(10i64.pow(k as u32)) + year_n as i64,
        };
        let (m, d) = if has_doy {
            month_day_of_doy(y, doy_n).unwrap_or((1, 1))
        } else {
            (
                if month_kind > 0 { month_n } else { l.m },
                if has_day { day_n } else { 1 },
            )
        };
        if (1..=12).contains(&m) && d >= 1 && d <= 31 {
            weekday_sun1(days_from_civil(y, m, d))
        } else {
            1 + rng.below(7) as u32
        }
    };
    let wd_n = if rng.chance(7, 10) {
        intended_wd
    } else {
        1 + rng.below(7) as u32
    };

    // --- time components ---
    #[derive(Clone, Copy)]
    enum T {
        H24,
        H12,
        Merid,
        Min,
        Sec,
        Frac,
    }
    let mut time_parts: Vec<T> = Vec::new();
    let want_time = match ty {
        Ty::Date => rng.chance(1, 12),
        _ => rng.chance(3, 4),
    };
    if want_time || ty == Ty::Time {
        match rng.below(10) {
            0..=2 => {}
            3..=6 => time_parts.push(T::H24),
            _ => {
                time_parts.push(T::H12);
            }
        }
        if rng.chance(3, 5) {
            time_parts.push(T::Min);
        }
        if rng.chance(1, 2) {
            time_parts.push(T::Sec);
        }
        let frac_ok = ty.has_fraction() || rng.chance(1, 15);
        if frac_ok && rng.chance(1, 3) {
            time_parts.push(T::Frac);
        }
        if matches!(time_parts.first(), Some(T::H12)) && rng.chance(3, 5) {
            if rng.chance(1, 4) {
                // meridian indicator BEFORE the 12-hour field (and everything else)
                time_parts.insert(0, T::Merid);
            } else {
                time_parts.push(T::Merid);
            }
        }
        if ty == Ty::Time && time_parts.is_empty() {
            time_parts.push(T::H24);
        }
    }

    let time_first = !time_parts.is_empty() && !date_parts.is_empty() && rng.chance(1, 8);
    let truncate = sw.truncation && rng.chance(1, 3);
    let mut b = Builder {
        rng,
        sw,
        toks: Vec::new(),
    };

    let emit_date = |b: &mut Builder, parts: &[D]| {
        for (i, p) in parts.iter().enumerate() {
            if i > 0 {
                b.sep(&SEPS_ANY);
            }
            match p {
                D::Year => {
                    let k = year_kind as usize;
                    let pic = "YYYY"[..k].to_string();
                    let mut txt = num_text(b.rng, year_n, k);
                    // an explicit sign now and then ('+' only where its meaning is clear)
                    match b.rng.below(24) {
                        0 | 1 if k != 2 => txt.insert(0, '+'),
                        2 => txt.insert(0, '-'),
                        _ => {}
                    }
                    if k == 2 && !txt.starts_with(['+', '-']) && b.rng.chance(1, 8) {
                        // the year in full under a two-letter field: zero-padded, or a real four-digit year
                        let (txt, n) = match b.rng.below(3) {
                            0 => (format!("{:04}", year_n), year_n),
                            1 => (format!("{:03}", year_n), year_n),
                            _ => {
                                let y = 1000 + b.rng.below(9000) as u32;
                                (format!("{}", y), y)
                            }
                        };
                        b.push(&pic, txt, Sem::Year { k: 2, n });
                    } else {
                        b.push(&pic, txt, Sem::Year { k: year_kind, n: year_n });
                    }
                }
                D::Month => match month_kind {
                    1 => {
                        if b.sw.names && (1..=12).contains(&month_n) && b.rng.chance(1, 15) {
                            let name = MONTH_FULL[month_n as usize - 1];
                            let name = if b.rng.bool() { &name[..3] } else { name };
                            let txt = rand_case(b.rng, name);
                            b.push("MM", txt, Sem::MonthNumAsName { n: month_n });
                        } else {
                            let txt = num_text(b.rng, month_n, 2);
                            b.push("MM", txt, Sem::Month { n: month_n });
                        }
                    }
                    mk => {
                        let n = if (1..=12).contains(&month_n) { month_n } else { 1 + month_n % 12 };
                        let name = MONTH_FULL[n as usize - 1];
                        let name = if b.rng.bool() { &name[..3] } else { name };
                        let txt = rand_case(b.rng, name);
                        let pic = if mk == 2 { "MON" } else { "MONTH" };
                        b.push(pic, txt, Sem::MonthName { n });
                    }
                },
                D::Day => {
                    let txt = num_text(b.rng, day_n, 2);
                    b.push("DD", txt, Sem::Day { n: day_n });
                }
                D::Doy => {
                    let txt = num_text(b.rng, doy_n, 3);
                    b.push("DDD", txt, Sem::Doy { n: doy_n });
                }
                D::Wd => match b.rng.below(3) {
                    0 => {
                        let txt = format!("{}", wd_n);
                        b.push("D", txt, Sem::WdNum { wd: wd_n });
                    }
                    1 => {
                        let txt = rand_case(b.rng, &WEEKDAY_FULL[wd_n as usize - 1][..3]);
                        b.push("DY", txt, Sem::WdName { wd: wd_n });
                    }
                    _ => {
                        let txt = rand_case(b.rng, WEEKDAY_FULL[wd_n as usize - 1]);
                        b.push("DAY", txt, Sem::WdName { wd: wd_n });
                    }
                },
            }
        }
    };

    let emit_time = |b: &mut Builder, parts: &[T]| {
        let bad = |b: &mut Builder| b.rng.below(100) < b.sw.invalid_rate;
        for (i, p) in parts.iter().enumerate() {
            if i > 0 {
                if matches!(p, T::Merid) {
                    if b.rng.bool() {
                        b.sep(b" ");
                    }
                } else if truncate {
                    b.sep(&SEPS_TOLERANT);
                } else if matches!(p, T::Frac) {
                    b.sep(b".");
                } else {
                    b.sep(&[b':', b':', b':', b'.', b' ', b'-', b',']);
                }
            }
            match p {
                T::H24 => {
                    let n = if bad(b) {
                        *b.rng.pick(&[24u32, 25, 99])
                    } else if b.rng.chance(1, 4) {
                        23
                    } else {
                        b.rng.below(24) as u32
                    };
                    let txt = num_text(b.rng, n, 2);
                    let pic = "HH24";
                    b.push(pic, txt, Sem::H24 { n });
                }
                T::H12 => {
                    let n = if bad(b) { *b.rng.pick(&[0u32, 13, 24]) } else { 1 + b.rng.below(12) as u32 };
                    let txt = num_text(b.rng, n, 2);
                    let pic = if b.rng.bool() { "HH" } else { "HH12" };
                    b.push(pic, txt, Sem::H12 { n });
                }
                T::Merid => {
                    let pm = b.rng.bool();
                    let dotted = b.rng.chance(1, 3);
                    let pic = match (dotted, b.rng.bool()) {
                        (true, true) => "A.M.",
                        (true, false) => "P.M.",
                        (false, true) => "AM",
                        (false, false) => "PM",
                    };
                    let txt = match (dotted, pm) {
                        (true, false) => "A.M.",
                        (true, true) => "P.M.",
                        (false, false) => "AM",
                        (false, true) => "PM",
                    };
                    let txt = rand_case(b.rng, txt);
                    b.push(pic, txt, Sem::Merid { pm });
                }
                T::Min => {
                    let n = if bad(b) {
                        *b.rng.pick(&[60u32, 61, 99])
                    } else if b.rng.chance(1, 3) {
                        59
                    } else {
                        b.rng.below(60) as u32
                    };
                    let txt = num_text(b.rng, n, 2);
                    b.push("MI", txt, Sem::Min { n });
                }
                T::Sec => {
                    let n = if bad(b) {
                        *b.rng.pick(&[60u32, 61, 99])
                    } else if b.rng.chance(1, 3) {
                        59
                    } else {
                        b.rng.below(60) as u32
                    };
                    let txt = num_text(b.rng, n, 2);
                    b.push("SS", txt, Sem::Sec { n });
                }
                T::Frac => {
                    let (pic, p) = match b.rng.below(4) {
                        0 => ("FF".to_string(), 9u8),
                        _ => {
                            let p = 1 + b.rng.below(9) as u8;
                            (format!("FF{}", p), p)
                        }
                    };
                    let len = 1 + b.rng.usize_below((p as usize).min(9));
                    let mut digits = String::new();
                    // now and then a fraction that rounds up to a whole second
                    let all_nines = b.rng.chance(1, 6);
                    for _ in 0..len {
                        if all_nines {
                            digits.push('9');
                        } else {
                            digits.push((b'0' + b.rng.below(10) as u8) as char);
                        }
                    }
                    // the picture is pushed without case randomisation of the digit
                    let picc = rand_case(b.rng, &pic);
                    let txt = b.pad(digits);
                    b.toks.push(Tok { pic: picc, txt, sem: Sem::Frac { p } });
                }
            }
        }
    };

    if time_first {
        emit_time(&mut b, &time_parts);
        b.sep(&[b' ', b' ', b',', b';']);
        emit_date(&mut b, &date_parts);
    } else {
        emit_date(&mut b, &date_parts);
        if !date_parts.is_empty() && !time_parts.is_empty() {
            let last_numeric = matches!(
                b.toks.last().map(|t| &t.sem),
                Some(Sem::Day { .. }) | Some(Sem::Year { .. }) | Some(Sem::Month { .. }) | Some(Sem::Doy { .. })
            );
            let first_is_merid = matches!(time_parts.first(), Some(T::Merid));
            if last_numeric && !first_is_merid && b.rng.chance(1, 6) && !truncate {
                b.toks.push(Tok {
                    pic: "T".into(),
                    txt: "T".into(),
                    sem: Sem::Sep { ch: b'T' },
                });
            } else if truncate {
                b.sep(&[b' ', b' ', b'-', b':']);
            } else {
                b.sep(&[b' ', b' ', b' ', b',', b'-', b'/']);
            }
        }
        emit_time(&mut b, &time_parts);
    }

    let mut toks = b.toks;
    // leading / trailing blanks in picture and text
    if sw.extra_blanks && rng.chance(1, 5) {
        toks.insert(
            0,
            Tok {
                pic: " ".into(),
                txt: (*rng.pick(&["", " ", "  "])).to_string(),
                sem: Sem::Blank,
            },
        );
    }
    if sw.extra_blanks && rng.chance(1, 5) {
        toks.push(Tok {
            pic: (*rng.pick(&[" ", "  "])).to_string(),
            txt: (*rng.pick(&["", " ", " \t", "\n", "\r\n"])).to_string(),
            sem: Sem::Blank,
        });
    }

    // now and then pad the picture with tolerant separators up to the internal
    // limit of 36 fields (their text is omitted: the input ends before them)
    if !toks.is_empty() && rng.chance(1, 14) {
        let target = *rng.pick(&[34usize, 35, 35, 36, 36]);
        let mut k = 0;
        while toks.len() < target {
            let ch = [b'-', b':', b'.'][k % 3];
            k += 1;
            toks.push(Tok {
                pic: (ch as char).to_string(),
                txt: String::new(),
                sem: Sem::Sep { ch },
            });
        }
    }

    if truncate && !toks.is_empty() {
        // omit the text of a tail of tokens; mostly inside the time part
        let first_time = toks.iter().position(|t| {
            matches!(
                t.sem,
                Sem::H24 { .. } | Sem::H12 { .. } | Sem::Min { .. } | Sem::Sec { .. } | Sem::Frac { .. } | Sem::Merid { .. }
            )
        });
        let cut = match first_time {
            Some(ft) if !time_first && rng.chance(9, 10) => ft + rng.usize_below(toks.len() - ft),
            _ => rng.usize_below(toks.len()),
        };
        // never leave a cut right before a separator's text: cut positions are token starts
        for t in toks.iter_mut().skip(cut.max(1)) {
            t.txt.clear();
        }
        // the text that stops early often ends in white space: an untrimmed line, a CR LF file
        if rng.chance(1, 3) {
            let ws = *rng.pick(&["\n", "\r\n", " ", "\t", "\x0c", " \n"]);
            toks.push(Tok { pic: String::new(), txt: ws.to_string(), sem: Sem::Blank });
        }
    }
    // Forms whose acceptance C18 does not speak about, used only where the text supplies the full
    // date (so that "the outcome does not depend on the clock" can be demanded of them):
    let complete = crate::model::is_complete_date(&toks) || ty == Ty::Time;
    if complete && !truncate && rng.chance(1, 12) {
        // a month number under a name element, as other systems' texts have it
        if let Some(i) = toks.iter().position(|t| matches!(t.sem, Sem::MonthName { .. })) {
            // never next to other digits (how digits that run together split is the parser's business)
            let before = toks[..i].iter().rev().find(|t| !t.txt.is_empty()).and_then(|t| t.txt.bytes().last());
            let after = toks[i + 1..].iter().find(|t| !t.txt.is_empty()).and_then(|t| t.txt.bytes().next());
            let digit = |b: Option<u8>| b.map(|b| b.is_ascii_digit()).unwrap_or(false);
            if !digit(before) && !digit(after) {
                if let Sem::MonthName { n } = toks[i].sem {
                    toks[i].txt = format!("{:02}", n);
                    toks[i].sem = Sem::MonthNameGivenNumber { n };
                }
            }
        }
    }
    if complete && !truncate && toks.last().map(|t| !t.txt.is_empty()).unwrap_or(false) && rng.chance(1, 12) {
        // text after the last picture element: zone designators as other systems write them
        let txt = *rng.pick(&["Z", "z", "+05:45", "+0545", "-03", "-03:30", "+00:00", " UTC", " GMT", "Z ", "+14", " +01:00"]);
        let last = toks.iter().rev().find(|t| !t.txt.is_empty()).and_then(|t| t.txt.bytes().last());
        let glued = last.map(|b| b.is_ascii_alphabetic()).unwrap_or(false) && txt.as_bytes()[0].is_ascii_alphabetic();
        let txt = if glued { format!(" {}", txt) } else { txt.to_string() };
        toks.push(Tok { pic: String::new(), txt, sem: Sem::Trailing });
    }
    OpKind::Parse { ty, toks }
}

/// Per-run generator state: parse operations that went through a formatter
/// slot and can be issued again later in the run (after the clock moved).
#[derive(Default)]
pub struct GenState {
    pub slotted: Vec<Op>,
    pub next_slot: u32,
}

pub fn gen_op(rng: &mut Rng, sw: &Swarm, now: &Reading, st: &mut GenState) -> Op {
    // re-issue an earlier parse on the same long-lived Formatter object
    if !st.slotted.is_empty() && rng.chance(1, 4) {
        let mut op = rng.pick(&st.slotted).clone();
        op.ticks = ticks(rng, sw);
        // sometimes the same Formatter object serves another target type
        if rng.chance(1, 4) {
            if let OpKind::Parse { ty, toks } = &mut op.kind {
                let new_ty = *rng.pick(&[Ty::Date, Ty::Timestamp, Ty::Oracle, Ty::Time]);
                // forms that are only generated for complete texts keep the type they were complete for
                let special = toks.iter().any(|t| matches!(t.sem, Sem::Trailing | Sem::MonthNameGivenNumber { .. }));
                if !special {
                    *ty = new_ty;
                }
            }
        }
        return op;
    }
    let kind = match rng.below(100) {
        0..=9 => OpKind::Now {
            ty: *rng.pick(&[Ty::Date, Ty::Timestamp, Ty::Oracle]),
        },
        10..=17 => OpKind::FromTime {
            ty: *rng.pick(&[Ty::Timestamp, Ty::Oracle]),
            time_usecs: match rng.below(4) {
                0 => *rng.pick(&[0i64, USECS_PER_DAY - 1, 43_200_000_000, 1, 999_999]),
                _ => rng.range_i64(0, USECS_PER_DAY - 1),
            },
        },
        _ => gen_parse(rng, sw, now),
    };
    let slot = if matches!(kind, OpKind::Parse { .. }) && rng.chance(2, 5) {
        st.next_slot += 1;
        Some(st.next_slot)
    } else {
        None
    };
    let op = Op {
        kind,
        ticks: ticks(rng, sw),
        slot,
    };
    if slot.is_some() && st.slotted.len() < 6 {
        st.slotted.push(op.clone());
    }
    op
}
