//! The simulated wall clock and the two seams through which the library can
//! observe it: the `verif-hooks` override (primary) and an interposed
//! `clock_gettime` (safety net for clock reads the hook does not cover).

use std::cell::{Cell, RefCell};
use std::rc::Rc;

/// One clock reading as handed to the code under test.
#[derive(Clone, Copy, Debug, PartialEq, Eq)]
pub struct Reading {
    /// UTC seconds since 1970-01-01.
    pub secs: i64,
    /// Nanoseconds; >= 1_000_000_000 is chrono's leap-second representation.
    pub nanos: u32,
    /// Local offset east of UTC in seconds.
    pub offset: i32,
    /// true if delivered through the interposed `clock_gettime` (an unhooked read).
    pub via_syscall: bool,
}

#[derive(Clone, Debug)]
pub struct SimClock {
    pub secs: i64,
    pub nanos: u32, // < 1e9
    pub offset: i32,
    pub leap_reads: u32,
    pub stall_reads: u32,
    /// (n, new offset): after n more readings the UTC offset changes (a DST
    /// switch that falls between two readings of one call)
    pub offset_switch: Option<(u32, i32)>,
    /// Ticks applied after successive readings of the current operation (cyclic).
    pub ticks: [u64; 3],
    pub tick_idx: usize,
    pub readings: Vec<Reading>,
    /// Set when an unhooked read happened while the simulated instant cannot be
    /// represented through `clock_gettime` (before 1970): the operation's
    /// result is then not comparable and its check is skipped (counted).
    pub unrepresentable_syscall_read: bool,
    /// Virtual time that passed through ticks (ns).
    pub ticked_ns: u128,
    /// Per-kind "fault observed by a reading" flags, set by events, cleared by reads.
    pub pending_fault: u32,
    pub fired_faults: [u64; 8],
}

pub const F_STEP: usize = 0;
pub const F_LAND: usize = 1;
pub const F_OFFSET: usize = 2;
pub const F_LEAP: usize = 3;
pub const F_OUTOFRANGE: usize = 4;
pub const F_STALL: usize = 5;
pub const F_ADVANCE: usize = 6;
pub const FAULT_NAMES: [&str; 7] = [
    "step",
    "land_before_boundary",
    "offset_change",
    "leap_second",
    "out_of_range_year",
    "stall",
    "advance",
];

impl SimClock {
    pub fn new(secs: i64, nanos: u32, offset: i32) -> Self {
        SimClock {
            secs,
            nanos,
            offset,
            leap_reads: 0,
            stall_reads: 0,
            offset_switch: None,
            ticks: [0; 3],
            tick_idx: 0,
            readings: Vec::new(),
            unrepresentable_syscall_read: false,
            ticked_ns: 0,
            pending_fault: 0,
            fired_faults: [0; 8],
        }
    }

    pub fn advance_ns(&mut self, ns: u128) {
        let total = self.nanos as u128 + ns;
        self.secs = self.secs.saturating_add((total / 1_000_000_000) as i64);
        self.nanos = (total % 1_000_000_000) as u32;
    }

    pub fn step_secs(&mut self, delta: i64) {
        self.secs = self.secs.saturating_add(delta);
    }

    /// The reading the clock would hand out now, without consuming anything.
    pub fn peek(&self) -> Reading {
        let leap = self.leap_reads > 0 && self.secs.rem_euclid(60) == 59 && self.offset % 60 == 0;
        Reading {
            secs: self.secs,
            nanos: if leap { self.nanos + 1_000_000_000 } else { self.nanos },
            offset: self.offset,
            via_syscall: false,
        }
    }

    pub fn begin_op(&mut self, ticks: [u64; 3]) {
        self.ticks = ticks;
        self.tick_idx = 0;
        self.readings.clear();
        self.unrepresentable_syscall_read = false;
    }

    fn after_read(&mut self) {
        // account "fired" for every fault kind that was pending when a reading observed the clock
        let mut p = self.pending_fault;
        let mut i = 0;
        while p != 0 {
            if p & 1 == 1 {
                self.fired_faults[i] += 1;
            }
            p >>= 1;
            i += 1;
        }
        self.pending_fault = 0;
        if self.leap_reads > 0 {
            self.leap_reads -= 1;
        }
        if let Some((n, off)) = self.offset_switch {
            if n <= 1 {
                self.offset = off;
                self.offset_switch = None;
            } else {
                self.offset_switch = Some((n - 1, off));
            }
        }
        if self.stall_reads > 0 {
            self.stall_reads -= 1;
        } else {
            let t = self.ticks[self.tick_idx % 3];
            self.tick_idx += 1;
            self.advance_ns(t as u128);
            self.ticked_ns += t as u128;
        }
    }

    pub fn read_hook(&mut self) -> Reading {
        let r = self.peek();
        self.readings.push(r);
        self.after_read();
        r
    }

    /// Reading through the interposed syscall: the genuine simulated UTC
    /// instant (no leap representation). What local time the reader derives
    /// from it is decided by the process time zone (see `process_offset`).
    pub fn read_syscall(&mut self) -> (i64, i64) {
        let mut r = self.peek();
        r.via_syscall = true;
        if r.nanos >= 1_000_000_000 {
            r.nanos -= 1_000_000_000;
        }
        let out = if r.secs < 86_400 || r.secs > 250_000_000_000 {
            self.unrepresentable_syscall_read = true;
            (86_400, 0)
        } else {
            (r.secs, r.nanos as i64)
        };
        self.readings.push(r);
        self.after_read();
        out
    }
}

pub type SharedClock = Rc<RefCell<SimClock>>;

static PROCESS_OFFSET: std::sync::atomic::AtomicI32 = std::sync::atomic::AtomicI32::new(0);

/// UTC offset of the process time zone, as measured at start-up.
pub fn process_offset() -> i32 {
    PROCESS_OFFSET.load(std::sync::atomic::Ordering::Relaxed)
}

pub fn set_process_offset(o: i32) {
    PROCESS_OFFSET.store(o, std::sync::atomic::Ordering::Relaxed);
}

thread_local! {
    static CUR: RefCell<Option<SharedClock>> = const { RefCell::new(None) };
    static HOOKED: Cell<bool> = const { Cell::new(false) };
}

/// Makes `clock` the simulated clock of this thread for both seams.
pub fn install(clock: &SharedClock, use_hook: bool) {
    CUR.with(|c| *c.borrow_mut() = Some(clock.clone()));
    set_hook(use_hook);
}

pub fn set_hook(use_hook: bool) {
    if use_hook {
        let f = Box::new(move || {
            let r = CUR.with(|c| {
                c.borrow()
                    .as_ref()
                    .map(|clk| clk.borrow_mut().read_hook())
            });
            let r = r.expect("hook clock read without an installed simulated clock");
            to_chrono(&r)
        });
        sqldatetime::verif_hooks::set_clock(Some(f));
    } else {
        sqldatetime::verif_hooks::set_clock(None);
    }
    HOOKED.with(|h| h.set(use_hook));
}

pub fn uninstall() {
    sqldatetime::verif_hooks::set_clock(None);
    HOOKED.with(|h| h.set(false));
    CUR.with(|c| *c.borrow_mut() = None);
}

pub fn to_chrono(r: &Reading) -> chrono::DateTime<chrono::FixedOffset> {
    // stay inside chrono's representable range whatever a chaos clock does
    let secs = r.secs.clamp(-8_000_000_000_000, 8_000_000_000_000);
    let nanos = if r.nanos >= 1_000_000_000 && secs.rem_euclid(60) != 59 {
        r.nanos - 1_000_000_000
    } else {
        r.nanos
    };
    let utc = chrono::DateTime::from_timestamp(secs, nanos)
        .expect("simulated instant outside chrono's range (harness bug)");
    let off = chrono::FixedOffset::east_opt(r.offset).expect("offset");
    utc.with_timezone(&off)
}

#[cfg(target_arch = "x86_64")]
const SYS_CLOCK_GETTIME: libc::c_long = 228;
#[cfg(target_arch = "aarch64")]
const SYS_CLOCK_GETTIME: libc::c_long = 113;

/// Interposed libc symbol: `CLOCK_REALTIME` reads made on a thread with an
/// installed simulated clock return simulator time; everything else is
/// forwarded to the kernel.
///
/// # Safety
/// Called by libc users with a valid `timespec` pointer.
#[no_mangle]
pub unsafe extern "C" fn clock_gettime(id: libc::clockid_t, ts: *mut libc::timespec) -> libc::c_int {
    if id == libc::CLOCK_REALTIME && !ts.is_null() {
        let got = CUR
            .try_with(|c| {
                let guard = c.try_borrow().ok()?;
                let clk = guard.as_ref()?;
                let mut clk = clk.try_borrow_mut().ok()?;
                Some(clk.read_syscall())
            })
            .ok()
            .flatten();
        if let Some((s, n)) = got {
            (*ts).tv_sec = s as libc::time_t;
            (*ts).tv_nsec = n as libc::c_long;
            return 0;
        }
    }
    libc::syscall(SYS_CLOCK_GETTIME, id as libc::c_long, ts) as libc::c_int
}
