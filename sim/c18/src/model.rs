//! Executable reference model for C18: maps an operation and ONE clock reading
//! to the expected result. It never parses text: the generator renders the
//! text itself and records, per token, which component value it carries.

use crate::clock::Reading;
use crate::script::{OpKind, Sem, Tok, Ty};
use simcore::civil::*;

#[derive(Clone, Copy, Debug, PartialEq, Eq)]
pub enum Exp {
    /// days (Date) or microseconds (Timestamp, Oracle-style date, Time)
    Val(i64),
    Err,
    /// the property is silent here: an error or any in-range value is accepted
    Relaxed,
    /// the script is outside what the model covers: not checked (counted)
    Unmodelled,
    /// the value is not modelled (the text uses something whose acceptance C18 does not speak
    /// about), but the text supplies the full date: whatever the outcome is, it must be an error
    /// or an in-range value and must be the same under every clock
    ClockFree,
}

#[derive(Clone, Copy, Debug, PartialEq, Eq)]
pub enum Outcome {
    Ok(i64),
    Err,
    Panic,
}

#[derive(Clone, Copy, Debug)]
pub struct LocalFields {
    pub y: i64,
    pub m: u32,
    pub d: u32,
    pub h: u32,
    pub mi: u32,
    pub s: u32,
    pub nanos: u32,
}

pub fn local_fields(r: &Reading) -> LocalFields {
    let ls = r.secs + r.offset as i64;
    let days = ls.div_euclid(SECS_PER_DAY);
    let sod = ls.rem_euclid(SECS_PER_DAY);
    let (y, m, d) = civil_from_days(days);
    LocalFields {
        y,
        m,
        d,
        h: (sod / 3600) as u32,
        mi: (sod % 3600 / 60) as u32,
        s: (sod % 60) as u32,
        nanos: r.nanos,
    }
}

pub fn in_range(ty: Ty, v: i64) -> bool {
    match ty {
        Ty::Date => (DATE_MIN_DAYS..=DATE_MAX_DAYS).contains(&v),
        Ty::Timestamp => (TS_MIN_USECS..=TS_MAX_USECS).contains(&v),
        Ty::Oracle => (TS_MIN_USECS..=ORACLE_MAX_USECS).contains(&v) && v.rem_euclid(1_000_000) == 0,
        Ty::Time => (0..USECS_PER_DAY).contains(&v),
    }
}

pub fn matches(exp: Exp, out: Outcome, ty: Ty) -> bool {
    match (exp, out) {
        (_, Outcome::Panic) => false,
        (Exp::Val(v), Outcome::Ok(o)) => v == o,
        (Exp::Val(_), Outcome::Err) => false,
        (Exp::Err, Outcome::Err) => true,
        (Exp::Err, Outcome::Ok(_)) => false,
        (Exp::Relaxed, Outcome::Err) => true,
        (Exp::Relaxed, Outcome::Ok(o)) => in_range(ty, o),
        (Exp::Unmodelled, _) => true,
        (Exp::ClockFree, Outcome::Err) => true,
        (Exp::ClockFree, Outcome::Ok(o)) => in_range(ty, o),
    }
}

fn adjust12(hour: u32, pm: bool) -> u32 {
    if pm {
        if hour == 12 {
            12
        } else {
            hour + 12
        }
    } else if hour == 12 {
        0
    } else {
        hour
    }
}

/// The two-letter year field reads up to four digits, and a text of three or four digits is
/// the year in full (0021 is the year 21, not 2021) — the leniency of the dialect the crate
/// follows. Two-digit fields are the only ones with this rule.
pub fn yy_text_is_full_year(txt: &str) -> bool {
    let t = txt.trim();
    (3..=4).contains(&t.len()) && t.bytes().all(|b| b.is_ascii_digit())
}

fn digits_value(txt: &str, max_len: usize) -> Option<u32> {
    let t = txt.trim();
    if t.is_empty() || t.len() > max_len || !t.bytes().all(|b| b.is_ascii_digit()) {
        return None;
    }
    t.parse::<u32>().ok()
}

pub fn expect(kind: &OpKind, r: &Reading) -> Exp {
    match kind {
        OpKind::Parse { ty, toks } => expect_parse(*ty, toks, r),
        OpKind::Now { ty } => expect_now(*ty, r),
        OpKind::FromTime { ty, time_usecs } => expect_from_time(*ty, *time_usecs, r),
    }
}

pub fn expect_now(ty: Ty, r: &Reading) -> Exp {
    let l = local_fields(r);
    if !(1..=9999).contains(&l.y) {
        return Exp::Relaxed;
    }
    let days = days_from_civil(l.y, l.m, l.d);
    let sod_us = (l.h as i64 * 3600 + l.mi as i64 * 60 + l.s as i64) * 1_000_000;
    match ty {
        Ty::Date => Exp::Val(days),
        Ty::Timestamp => {
            if l.nanos >= 1_000_000_000 {
                Exp::Relaxed
            } else {
                Exp::Val(days * USECS_PER_DAY + sod_us + (l.nanos / 1000) as i64)
            }
        }
        Ty::Oracle => Exp::Val(days * USECS_PER_DAY + sod_us),
        Ty::Time => Exp::Unmodelled,
    }
}

pub fn expect_from_time(ty: Ty, time_usecs: i64, r: &Reading) -> Exp {
    if !(0..USECS_PER_DAY).contains(&time_usecs) {
        return Exp::Unmodelled;
    }
    let l = local_fields(r);
    if !(1..=9999).contains(&l.y) {
        return Exp::Relaxed;
    }
    let days = days_from_civil(l.y, l.m, l.d);
    match ty {
        Ty::Timestamp => Exp::Val(days * USECS_PER_DAY + time_usecs),
        Ty::Oracle => Exp::Val(days * USECS_PER_DAY + time_usecs / 1_000_000 * 1_000_000),
        _ => Exp::Unmodelled,
    }
}

/// Does the text supply a full year, month and day (or full year and day of
/// year)? Those operations must not depend on the clock at all.
pub fn is_complete_date(toks: &[Tok]) -> bool {
    let mut y4 = false;
    let mut m = false;
    let mut d = false;
    let mut doy = false;
    for t in toks {
        if t.txt.trim().is_empty() {
            continue;
        }
        match t.sem {
            Sem::Year { k: 4, .. } => y4 = true,
            // a YY field whose text has three or four digits is a full year (see expect_parse)
            Sem::Year { k: 2, .. } if yy_text_is_full_year(&t.txt) => y4 = true,
            Sem::Month { .. } | Sem::MonthName { .. } | Sem::MonthNumAsName { .. } | Sem::MonthNameGivenNumber { .. } => m = true,
            Sem::Day { .. } => d = true,
            Sem::Doy { .. } => doy = true,
            _ => {}
        }
    }
    y4 && ((m && d) || doy)
}

pub fn expect_parse(ty: Ty, toks: &[Tok], r: &Reading) -> Exp {
    let n = toks.len();
    // exhausted[i]: no input text is left when token i is reached
    let mut exhausted = vec![true; n + 1];
    for i in (0..n).rev() {
        exhausted[i] = exhausted[i + 1] && toks[i].txt.trim().is_empty();
    }

    // Texts of neighbouring fields must not run into each other (digits into
    // digits, letters into letters): how such input splits is the parser's
    // business, not something C18 speaks about.
    {
        let mut prev: Option<u8> = None;
        for t in toks {
            if t.txt.is_empty() {
                continue;
            }
            let first = t.txt.as_bytes()[0];
            if let Some(p) = prev {
                if (p.is_ascii_digit() && first.is_ascii_digit())
                    || (p.is_ascii_alphabetic() && first.is_ascii_alphabetic())
                {
                    return Exp::Unmodelled;
                }
            }
            prev = t.txt.as_bytes().last().copied();
        }
    }

    let mut clock_free_only = false;
    let mut year: Option<(u8, u32)> = None;
    let mut month: Option<u32> = None;
    let mut day: Option<u32> = None;
    let mut doy: Option<u32> = None;
    let mut dow: Option<u32> = None;
    let mut hour: u32 = 0;
    let mut hour_set: Option<bool> = None;
    let mut ampm: Option<bool> = None;
    let mut minute: Option<u32> = None;
    let mut second: Option<u32> = None;
    let mut usec: Option<u32> = None;

    for (i, t) in toks.iter().enumerate() {
        let ex = exhausted[i];
        let empty = t.txt.trim().is_empty();
        if empty && !ex && !matches!(t.sem, Sem::Blank) {
            return Exp::Unmodelled;
        }
        match &t.sem {
            Sem::Blank => {
                if !empty {
                    return Exp::Unmodelled;
                }
            }
            Sem::Sep { ch } => {
                let tolerant = matches!(ch, b'-' | b':' | b'.');
                if ex {
                    if tolerant {
                        continue;
                    }
                    return Exp::Err;
                }
                let tt = t.txt.trim();
                if tt.len() != 1 || tt.as_bytes()[0] != *ch {
                    return Exp::Unmodelled;
                }
            }
            Sem::Year { k, n } => {
                if !ty.has_date() {
                    return Exp::Err;
                }
                if year.is_some() {
                    return Exp::Err;
                }
                if ex {
                    return Exp::Err;
                }
                if !(1..=4).contains(k) {
                    return Exp::Unmodelled;
                }
                // an explicit sign: '-' makes a date-bearing type fail whatever follows; '+' is
                // accepted and changes nothing for Y, YYY and YYYY (for YY the sign counts
                // towards the "more than two characters means a full year" rule, whose meaning
                // the property leaves open: not modelled)
                let tt = t.txt.trim();
                let body = if let Some(rest) = tt.strip_prefix('-') {
                    if digits_value(rest, *k as usize).is_some() {
                        return Exp::Err;
                    }
                    return Exp::Unmodelled;
                } else if let Some(rest) = tt.strip_prefix('+') {
                    if *k == 2 {
                        return Exp::Unmodelled;
                    }
                    rest
                } else {
                    tt
                };
                if *k == 2 && yy_text_is_full_year(tt) {
                    if digits_value(tt, 4) != Some(*n) {
                        return Exp::Unmodelled;
                    }
                    year = Some((4, *n));
                    continue;
                }
                if digits_value(body, *k as usize) != Some(*n) {
                    return Exp::Unmodelled;
                }
                year = Some((*k, *n));
            }
            Sem::Month { n } => {
                if !ty.has_date() || month.is_some() || ex {
                    return Exp::Err;
                }
                if digits_value(&t.txt, 2) != Some(*n) {
                    return Exp::Unmodelled;
                }
                month = Some(*n);
            }
            Sem::MonthName { n } | Sem::MonthNumAsName { n } => {
                if !ty.has_date() || month.is_some() || ex {
                    return Exp::Err;
                }
                if !(1..=12).contains(n) {
                    return Exp::Unmodelled;
                }
                let name = MONTH_FULL[*n as usize - 1];
                let tt = t.txt.trim();
                if !(tt.eq_ignore_ascii_case(name) || tt.eq_ignore_ascii_case(&name[..3])) {
                    return Exp::Unmodelled;
                }
                month = Some(*n);
            }
            Sem::MonthNameGivenNumber { n } => {
                if !ty.has_date() || month.is_some() || ex {
                    return Exp::Err;
                }
                if digits_value(&t.txt, 2) != Some(*n) {
                    return Exp::Unmodelled;
                }
                month = Some(*n);
                clock_free_only = true;
            }
            Sem::Trailing => {
                if i + 1 != n {
                    return Exp::Unmodelled;
                }
                if !empty {
                    clock_free_only = true;
                }
            }
            Sem::Day { n } => {
                if !ty.has_date() || day.is_some() || ex {
                    return Exp::Err;
                }
                if digits_value(&t.txt, 2) != Some(*n) {
                    return Exp::Unmodelled;
                }
                day = Some(*n);
            }
            Sem::Doy { n } => {
                if !ty.has_date() || doy.is_some() || ex {
                    return Exp::Err;
                }
                if digits_value(&t.txt, 3) != Some(*n) {
                    return Exp::Unmodelled;
                }
                doy = Some(*n);
            }
            Sem::WdName { wd } => {
                if !ty.has_date() || dow.is_some() || ex {
                    return Exp::Err;
                }
                if !(1..=7).contains(wd) {
                    return Exp::Unmodelled;
                }
                let name = WEEKDAY_FULL[*wd as usize - 1];
                let tt = t.txt.trim();
                // DAY pictures take the full name, DY pictures the abbreviation
                let full_pic = t.pic.len() == 3;
                let ok = if full_pic {
                    tt.eq_ignore_ascii_case(name)
                } else {
                    tt.eq_ignore_ascii_case(&name[..3])
                };
                if !ok {
                    return Exp::Unmodelled;
                }
                dow = Some(*wd);
            }
            Sem::WdNum { wd } => {
                if !ty.has_date() || dow.is_some() || ex {
                    return Exp::Err;
                }
                if !(1..=7).contains(wd) || digits_value(&t.txt, 1) != Some(*wd) {
                    return Exp::Unmodelled;
                }
                dow = Some(*wd);
            }
            Sem::H24 { n } => {
                if !ty.has_time() || hour_set.is_some() || ampm.is_some() {
                    return Exp::Err;
                }
                let v = if ex {
                    0
                } else {
                    if digits_value(&t.txt, 2) != Some(*n) {
                        return Exp::Unmodelled;
                    }
                    *n
                };
                hour = v;
                hour_set = Some(true);
            }
            Sem::H12 { n } => {
                if !ty.has_time() || hour_set.is_some() {
                    return Exp::Err;
                }
                let v = if ex {
                    12
                } else {
                    if digits_value(&t.txt, 2) != Some(*n) {
                        return Exp::Unmodelled;
                    }
                    *n
                };
                if !(1..=12).contains(&v) {
                    return Exp::Err;
                }
                hour = v;
                if let Some(pm) = ampm {
                    hour = adjust12(hour, pm);
                }
                hour_set = Some(false);
            }
            Sem::Merid { pm } => {
                if !ty.has_time() || ampm.is_some() || hour_set == Some(true) {
                    return Exp::Err;
                }
                if !ex {
                    let tt = t.txt.trim();
                    let dotted = t.pic.contains('.');
                    let want = match (dotted, *pm) {
                        (true, false) => "A.M.",
                        (true, true) => "P.M.",
                        (false, false) => "AM",
                        (false, true) => "PM",
                    };
                    if !tt.eq_ignore_ascii_case(want) {
                        return Exp::Unmodelled;
                    }
                    ampm = Some(*pm);
                    hour = adjust12(hour, *pm);
                }
            }
            Sem::Min { n } => {
                if !ty.has_time() || minute.is_some() {
                    return Exp::Err;
                }
                let v = if ex {
                    0
                } else {
                    if digits_value(&t.txt, 2) != Some(*n) {
                        return Exp::Unmodelled;
                    }
                    *n
                };
                minute = Some(v);
            }
            Sem::Sec { n } => {
                if !ty.has_time() || second.is_some() {
                    return Exp::Err;
                }
                let v = if ex {
                    0
                } else {
                    if digits_value(&t.txt, 2) != Some(*n) {
                        return Exp::Unmodelled;
                    }
                    *n
                };
                second = Some(v);
            }
            Sem::Frac { p } => {
                if !ty.has_fraction() || usec.is_some() {
                    return Exp::Err;
                }
                let v = if ex {
                    0
                } else {
                    let tt = t.txt.trim();
                    if tt.is_empty()
                        || tt.len() > *p as usize
                        || tt.len() > 9
                        || !tt.bytes().all(|b| b.is_ascii_digit())
                    {
                        return Exp::Unmodelled;
                    }
                    // up to six digits are exact; seven to nine are rounded half up to the
                    // microsecond and may carry (1_000_000 us = the next second, and so on up
                    // to the date: the value is a plain sum of its parts)
                    let int: u64 = tt.parse().unwrap();
                    if tt.len() <= 6 {
                        (int * 10u64.pow(6 - tt.len() as u32)) as u32
                    } else {
                        let div = 10u64.pow(tt.len() as u32 - 6);
                        ((int * 2 + div) / (2 * div)) as u32
                    }
                };
                usec = Some(v);
            }
        }
    }

    if clock_free_only {
        let full = !ty.has_date() || (matches!(year, Some((4, _))) && ((month.is_some() && day.is_some()) || doy.is_some()));
        return if full { Exp::ClockFree } else { Exp::Unmodelled };
    }
    let minute = minute.unwrap_or(0);
    let second = second.unwrap_or(0);
    let usec = usec.unwrap_or(0);

    if !ty.has_date() {
        if hour >= 24 || minute >= 60 || second >= 60 {
            return Exp::Err;
        }
        let total =
            (hour as i64 * 3600 + minute as i64 * 60 + second as i64) * 1_000_000 + usec as i64;
        return if total < USECS_PER_DAY {
            Exp::Val(total)
        } else {
            Exp::Err
        };
    }

    let l = local_fields(r);
    let clock_year_ok = (1..=9999).contains(&l.y);
    let mut relaxed = false;
    let y: i64 = match year {
        Some((4, n)) => n as i64,
        Some((k, n)) => {
            if !clock_year_ok {
                relaxed = true;
            }
            let modulus = 10i64.pow(k as u32);
            l.y - l.y.rem_euclid(modulus) + n as i64
        }
        None => {
            if !clock_year_ok {
                relaxed = true;
            }
            l.y
        }
    };
    let month_set = month.is_some();
    let day_set = day.is_some();
    let mut m = month.unwrap_or(l.m);
    let mut d = day.unwrap_or(1);

    let result = (|| {
        if let Some(nd) = doy {
            let (dm, dd) = match month_day_of_doy(y, nd) {
                Some(x) => x,
                None => return Exp::Err,
            };
            match (month_set, day_set) {
                (true, true) => {
                    if dm != m || dd != d {
                        return Exp::Err;
                    }
                }
                (true, false) => {
                    if dm != m {
                        return Exp::Err;
                    }
                    d = dd;
                }
                (false, true) => {
                    if dd != d {
                        return Exp::Err;
                    }
                    m = dm;
                }
                (false, false) => {
                    m = dm;
                    d = dd;
                }
            }
        }
        if !valid_ymd(y, m, d) {
            return Exp::Err;
        }
        let days = days_from_civil(y, m, d);
        if let Some(wd) = dow {
            if weekday_sun1(days) != wd {
                return Exp::Err;
            }
        }
        match ty {
            Ty::Date => Exp::Val(days),
            Ty::Timestamp | Ty::Oracle => {
                if hour >= 24 || minute >= 60 || second >= 60 {
                    return Exp::Err;
                }
                let total = days * USECS_PER_DAY
                    + (hour as i64 * 3600 + minute as i64 * 60 + second as i64) * 1_000_000
                    + usec as i64;
                if total > TS_MAX_USECS {
                    return Exp::Err;
                }
                Exp::Val(total)
            }
            Ty::Time => unreachable!(),
        }
    })();
    if relaxed {
        Exp::Relaxed
    } else {
        result
    }
}
