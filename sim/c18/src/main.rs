//! C18 — missing date fields default from the current local date, and only
//! then. Deterministic simulation of the wall clock with fault injection.
//!
//! usage: c18 --tier quick|thorough [--runs N] [--sweep-stride N] [--out FILE]
//!        c18 --replay FILE

mod clock;
mod exec;
mod gen;
mod model;
mod script;
mod shrink;
mod sweep;

use clock::{SharedClock, SimClock};
use exec::{ExecOpts, Stats, Violation};
use script::*;
use serde_json::json;
use simcore::civil::*;
use simcore::pool;
use simcore::rng::{tag, Rng};
use simcore::{Fnv, EXIT_HARNESS, EXIT_OK, EXIT_VIOLATION};
use std::cell::RefCell;
use std::rc::Rc;

const PROPERTY: &str = "C18";

fn simulate_run(seed: u64, run: u64, stats: &mut Stats, crosscheck: bool) -> (Script, Option<Violation>) {
    let mut rng = Rng::for_run(seed, tag("C18-run"), run);
    let sw = gen::draw_swarm(&mut rng);
    let (secs, nanos, offset) = gen::draw_start(&mut rng);
    let clk: SharedClock = Rc::new(RefCell::new(SimClock::new(secs, nanos, offset)));
    clock::install(&clk, true);
    let opts = ExecOpts {
        crosscheck,
        collect_samples: run < 4,
        lean: false,
        run,
        process_offset: clock::process_offset(),
    };
    let mut log = Fnv::new();
    log.write_i64(secs);
    let mut events: Vec<Ev> = Vec::new();
    let mut found = None;
    let mut gst = gen::GenState::default();
    exec::reset_formatters();
    for _ in 0..sw.n_events {
        if rng.below(100) < sw.op_share {
            let now = clk.borrow().peek();
            let op = gen::gen_op(&mut rng, &sw, &now, &mut gst);
            let cross = rng.chance(1, 4);
            events.push(Ev::Op(op.clone()));
            if let Some(v) = exec::exec_op(&op, events.len() - 1, &clk, stats, &mut log, &opts, cross, None) {
                found = Some(v);
                break;
            }
        } else {
            let now = clk.borrow().peek();
            for ev in gen::gen_clock_event(&mut rng, &sw, &now) {
                exec::apply_clock_event(&ev, &clk, stats, &mut log);
                events.push(ev);
            }
        }
    }
    exec::finish_clock(&clk, stats);
    clock::uninstall();
    stats.runs += 1;
    stats.batch_hash = stats.batch_hash.wrapping_add(pool::batch_mix(run, log.finish()));
    (
        Script {
            seed,
            run,
            start_secs: secs,
            start_nanos: nanos,
            start_offset: offset,
            events,
        },
        found,
    )
}

/// The history of one worker thread: the scripts of the `k` runs that the
/// thread executed before `run`, followed by `run` itself, as one script.
/// Used when a violation depends on state an earlier run left in the library.
fn history_script(seed: u64, run: u64, workers: u64, k: u64) -> Script {
    let mut st = Stats::default();
    let first = run.saturating_sub(k * workers);
    let mut idx = first;
    let mut combined: Option<Script> = None;
    // keep the residue class of `run`
    while idx % workers != run % workers {
        idx += 1;
    }
    while idx <= run {
        let (s, _) = simulate_run(seed, idx, &mut st, false);
        match combined.as_mut() {
            None => combined = Some(s),
            Some(c) => {
                c.events.push(Ev::SetWall { secs: s.start_secs, nanos: s.start_nanos, kind: 0 });
                c.events.push(Ev::Offset { secs: s.start_offset });
                c.events.push(Ev::Leap { reads: 0 });
                c.events.push(Ev::Stall { reads: 0 });
                c.events.extend(s.events);
            }
        }
        idx += workers;
    }
    let mut c = combined.expect("at least the run itself");
    c.run = run;
    c
}

fn replay(path: &str, expect_class: Option<&str>) -> i32 {
    let v = match simcore::evidence::read_json(std::path::Path::new(path)) {
        Ok(v) => v,
        Err(e) => {
            eprintln!("harness error: {e}");
            return EXIT_HARNESS;
        }
    };
    if v["kind"].as_str() == Some("miri") {
        return simcore::miri::replay(PROPERTY, "c18", "c18_threads", &v, path);
    }
    let script = match Script::from_json(&v["script"]) {
        Ok(s) => s,
        Err(e) => {
            eprintln!("harness error: bad replay file: {e}");
            return EXIT_HARNESS;
        }
    };
    // the environment of the worker process that found it
    simcore::envswarm::install_from_json(&v["script"]["env"]);
    let mut st = Stats::default();
    let opts = ExecOpts {
        crosscheck: false,
        collect_samples: false,
        lean: false,
        run: u64::MAX,
            process_offset: crate::clock::process_offset(),
    };
    let (viol, hash) = exec::run_script(&script, &mut st, &opts);
    println!("replay {}: {} events, log hash {:016x}", path, script.events.len(), hash);
    match viol {
        Some(viol) if expect_class.map(|c| c == viol.class).unwrap_or(true) => {
            let v = viol;
            println!("failing-event-index {}", v.op_index);
            println!("reproduced: class={} {}", v.class, v.detail);
            println!("VIOLATION property={} replay={}", PROPERTY, path);
            EXIT_VIOLATION
        }
        Some(other) => {
            println!("a violation of another class ({}) occurs, not the expected one", other.class);
            EXIT_OK
        }
        None => {
            println!("no violation on this tree");
            EXIT_OK
        }
    }
}

/// Fixed start-up sequence executed by every process of this check (see main).
fn prime() {
    let clk: SharedClock = Rc::new(RefCell::new(SimClock::new(981_173_106, 0, 0))); // 2001-02-03 04:05:06 UTC
    clk.borrow_mut().stall_reads = u32::MAX;
    clock::install(&clk, true);
    for kind in [
        OpKind::Now { ty: Ty::Date },
        OpKind::Now { ty: Ty::Timestamp },
        OpKind::Now { ty: Ty::Oracle },
        OpKind::FromTime { ty: Ty::Timestamp, time_usecs: 0 },
        OpKind::FromTime { ty: Ty::Oracle, time_usecs: 0 },
        OpKind::Parse { ty: Ty::Date, toks: Vec::new() },
    ] {
        let _ = exec::call_library(&kind);
    }
    clock::uninstall();
}

/// Probes the unhooked path: chrono::Local::now() over the interposed
/// clock_gettime. Returns the UTC offset of the process time zone if the path
/// works (the seam-fidelity cross-check needs it), None otherwise.
fn probe_process_offset() -> Option<i32> {
    let clk: SharedClock = Rc::new(RefCell::new(SimClock::new(1_700_000_000, 123_000_000, 0)));
    clk.borrow_mut().stall_reads = u32::MAX;
    clock::install(&clk, false);
    let got = sqldatetime::Timestamp::now().map(|t| t.usecs());
    let reads = clk.borrow().readings.len();
    clock::uninstall();
    match got {
        Ok(us) if reads >= 1 && (us - 1_700_000_000_123_000) % 1_000_000 == 0 => {
            let off = (us - 1_700_000_000_123_000) / 1_000_000;
            if off.abs() <= 86_400 {
                Some(off as i32)
            } else {
                None
            }
        }
        _ => None,
    }
}

fn main() {
    let args: Vec<String> = std::env::args().collect();
    let mut tier = std::env::var("VERIF_TIER").unwrap_or_else(|_| "quick".into());
    let mut runs_override: Option<u64> = None;
    let mut stride_override: Option<u64> = None;
    let mut out = simcore::verif_root().join("evidence").join("C18.json");
    let mut replay_file: Option<String> = None;
    let mut no_confirm = false;
    let mut no_miri = false;
    let mut miri_seeds_override: Option<u64> = None;
    let mut expect_class: Option<String> = None;
    // (phase, k, W) when this process is a worker
    let mut worker_proc: Option<(String, u64, u64)> = None;
    let mut passthrough: Vec<String> = Vec::new();
    let mut i = 1;
    while i < args.len() {
        if args[i] != "--worker-proc" && args[i] != "--out" && args[i] != "--replay" {
            // handed on to worker processes unchanged
            if matches!(args[i].as_str(), "--tier" | "--runs" | "--sweep-stride") && i + 1 < args.len() {
                passthrough.push(args[i].clone());
                passthrough.push(args[i + 1].clone());
            }
        }
        match args[i].as_str() {
            "--worker-proc" => {
                worker_proc = Some((
                    args[i + 1].clone(),
                    args[i + 2].parse().unwrap_or(0),
                    args[i + 3].parse().unwrap_or(1),
                ));
                i += 3;
            }
            "--tier" => {
                i += 1;
                tier = args[i].clone();
            }
            "--runs" => {
                i += 1;
                runs_override = args[i].parse().ok();
            }
            "--sweep-stride" => {
                i += 1;
                stride_override = args[i].parse().ok();
            }
            "--out" => {
                i += 1;
                out = args[i].clone().into();
            }
            "--replay" => {
                i += 1;
                replay_file = Some(args[i].clone());
            }
            "--no-confirm" => no_confirm = true,
            "--no-miri" => no_miri = true,
            "--miri-seeds" => {
                i += 1;
                miri_seeds_override = args[i].parse().ok();
            }
            "--expect-class" => {
                i += 1;
                expect_class = Some(args[i].clone());
            }
            other => {
                eprintln!("unknown argument {other}");
                std::process::exit(EXIT_HARNESS);
            }
        }
        i += 1;
    }
    exec::install_panic_hook();
    // Every process of this check starts the same way: a fixed sequence of
    // clock-reading calls under a fixed clock. Whatever state the library keeps
    // from its first use is thereby the same in workers and in replays.
    prime();
    let probed = probe_process_offset();
    clock::set_process_offset(probed.unwrap_or(0));
    if let Some(f) = replay_file {
        std::process::exit(replay(&f, expect_class.as_deref()));
    }
    if tier != "quick" && tier != "thorough" {
        eprintln!("unknown tier {tier}");
        std::process::exit(EXIT_HARNESS);
    }
    let thorough = tier == "thorough";
    let seed = simcore::seed_from_env();
    let t0 = simcore::real_monotonic_s();
    let workers = pool::default_workers();
    let crosscheck = probed.is_some();
    let stride: u64 = stride_override.unwrap_or(if thorough { 1 } else { 13 });
    let battery = sweep::battery();
    let total_days = (DATE_MAX_DAYS - DATE_MIN_DAYS + 1) as u64;
    let n_runs: u64 = runs_override.unwrap_or(if thorough { 20_000_000 } else { 1_000_000 });

    // ---- worker process: one slice of one phase, single-threaded ----
    if let Some((phase, k, w)) = worker_proc {
        // the process environment is a seam too: odd-numbered workers run with a seeded set of
        // date/locale related variables (never TZ), even-numbered ones with none of them
        simcore::envswarm::install(&simcore::envswarm::plan(seed, k));
        let mut acc = Stats::default();
        match phase.as_str() {
            "sweep" => {
                let prepared: Vec<exec::Prepared> = battery.iter().map(exec::prepare).collect();
                let mut idx = k;
                while idx < total_days {
                    let day = DATE_MIN_DAYS + idx as i64;
                    if idx % stride == 0 || sweep::is_boundary_day(day) {
                        acc.runs += 1;
                        if let Some((script, v)) = sweep::sweep_day(day, seed, &battery, &prepared, thorough, &mut acc) {
                            acc.violations.push((idx, script, v));
                            break;
                        }
                    }
                    idx += w;
                }
            }
            _ => {
                let mut idx = k;
                while idx < n_runs {
                    // one run in 32 executes on a thread of its own: per-thread
                    // library state is then in its first-use condition
                    let outcome = if idx % 32 == 5 {
                        std::thread::scope(|s| s.spawn(|| simulate_run(seed, idx, &mut acc, crosscheck)).join().expect("harness thread"))
                    } else {
                        simulate_run(seed, idx, &mut acc, crosscheck)
                    };
                    if let (script, Some(v)) = outcome {
                        acc.violations.push((idx, script, v));
                        break;
                    }
                    idx += w;
                }
            }
        }
        let side = simcore::procpool::scratch_dir().join(format!("c18-{}-{}-{}.bin", phase, std::process::id(), k));
        println!("RESULT {}", acc.to_json(&side));
        std::process::exit(EXIT_OK);
    }

    simcore::envswarm::install(&simcore::envswarm::baseline());
    println!("C18 simulation: VERIF_SEED={seed} tier={tier}");
    if !crosscheck {
        println!("note: seam-fidelity cross-check disabled (chrono::Local::now() over the interposed clock_gettime did not return simulator time)");
    }
    use simcore::pool::Merge;
    let mut phase_errors: Vec<String> = Vec::new();
    let mut run_phase = |phase: &str| -> Stats {
        let mut total = Stats::default();
        for r in simcore::procpool::run_phase(phase, workers as u64, &passthrough) {
            match r.result {
                Ok(v) => total.merge(Stats::from_json(&v)),
                Err(e) => phase_errors.push(e),
            }
        }
        total
    };

    // ---- phase 1: frozen-clock sweep over the clock-date dimension ----
    let sweep_stats: Stats = run_phase("sweep");
    let sweep_days = sweep_stats.runs;
    let sweep_ops = sweep_stats.ops;
    let t1 = simcore::real_monotonic_s();
    println!(
        "sweep: {} days x {} times x {} battery ops = {} ops in {:.1}s (stride {})",
        sweep_days,
        if thorough { 5 } else { 4 },
        battery.len(),
        sweep_ops,
        t1 - t0,
        stride
    );

    // ---- phase 2: seeded runs with clock fault schedules (fresh worker processes) ----
    let mut total: Stats = if sweep_stats.violations.is_empty() {
        run_phase("runs")
    } else {
        Stats::default()
    };
    let run_stats_runs = total.runs;
    let t2 = simcore::real_monotonic_s();
    println!(
        "seeded runs: {} runs, {} ops, {} library calls in {:.1}s",
        total.runs,
        total.ops,
        total.lib_calls,
        t2 - t1
    );
    let sweep_violations = sweep_stats.violations.clone();
    let is_sweep_violation = !sweep_violations.is_empty();
    total.merge(sweep_stats);
    total.violations = if !sweep_violations.is_empty() {
        sweep_violations
    } else {
        total.violations
    };
    total.harness_errors.extend(phase_errors.iter().cloned());

    // ---- scenario C: threads sharing Formatter objects, under Miri's seeded scheduler ----
    let miri_seeds = miri_seeds_override.unwrap_or(if thorough { 128 } else { 8 });
    // a high preemption rate (a thread switch after almost every basic block) interleaves threads that do
    // the same thing at the finest grain; lower rates give longer uninterrupted stretches
    let rates: Vec<&str> = if thorough { vec!["0.05", "0.5", "0.9"] } else { vec!["0.9", "0.1"] };
    let miri_seeds = if thorough { miri_seeds } else { (miri_seeds / 2).max(1) };
    let miri_res = if no_miri || !total.violations.is_empty() {
        None
    } else {
        Some(simcore::miri::run("c18", "c18_threads", miri_seeds, &rates, seed))
    };
    if let Some(m) = &miri_res {
        match (&m.failure, &m.skipped) {
            (Some((s, r, _)), _) => println!("miri: FAILURE at scheduler seed {} preemption rate {}", s, r),
            (None, Some(why)) => println!("miri: skipped: {}", why.lines().last().unwrap_or("")),
            (None, None) => println!("miri: {} scheduler seeds clean in {:.1}s", m.seeds_run, m.wall_s),
        }
    }

    // ---- violations: minimise, write replay, confirm in a fresh process ----
    let mut exit = EXIT_OK;
    let mut violation_lines = Vec::new();
    let mut n_viol = 0;
    for (idx, script, v) in total.violations.clone() {
        println!("original violation (run {}): class={} : {}", idx, v.class, v.detail);
        // from here on this process, and every process it starts, runs in the environment of the
        // worker that found the violation
        simcore::envswarm::install(&simcore::envswarm::plan(seed, idx % workers as u64));
        let class = v.class;
        // Does the run reproduce on its own in a fresh process? If it only
        // fails after earlier runs of the same worker thread (hidden state in
        // the library), prepend that history.
        let mut base: Option<Script> = None;
        if no_confirm || shrink::fails_in_fresh_process(&script, class).is_some() {
            base = Some(script.clone());
        } else if !is_sweep_violation {
            for k in [1u64, 2, 4, 8, 16, 32, 64] {
                let h = history_script(seed, idx, workers as u64, k);
                if shrink::fails_in_fresh_process(&h, class).is_some() {
                    println!("the run alone does not reproduce; it does after the {} preceding run(s) of its worker thread", k);
                    base = Some(h);
                    break;
                }
            }
        }
        let base = match base {
            Some(b) => b,
            None => {
                eprintln!("harness error: violation of run {} did not reproduce in a fresh process", idx);
                exit = EXIT_HARNESS;
                continue;
            }
        };
        let min = if std::env::var_os("C18_NO_SHRINK").is_some() {
            base.clone()
        } else {
            let quick_min = shrink::shrink(base.clone(), class, &shrink::fails_in_process, 4000);
            if no_confirm || shrink::fails_in_fresh_process(&quick_min, class).is_some() {
                quick_min
            } else {
                shrink::shrink(base.clone(), class, &shrink::fails_in_fresh_process, 400)
            }
        };
        let mut st = Stats::default();
        let opts = ExecOpts {
            crosscheck: false,
            collect_samples: false,
            lean: false,
            run: u64::MAX,
            process_offset: crate::clock::process_offset(),
        };
        let (v_min, _) = exec::run_script(&min, &mut st, &opts);
        let final_v = match v_min {
            Some(vm) if vm.class == class => vm,
            _ => v.clone(),
        };
        let final_script = min;
        n_viol = 1;
        let dir = simcore::verif_root().join("replays");
        let path = dir.join(format!("C18-{}-{}.json", seed, idx));
        let body = json!({
            "property": PROPERTY,
            "class": class,
            "detail": final_v.detail,
            "seed": seed,
            "run": idx,
            "script": final_script.to_json(),
        });
        if let Err(e) = simcore::evidence::write_json_atomic(&path, &body) {
            eprintln!("harness error: cannot write replay file: {e}");
            std::process::exit(EXIT_HARNESS);
        }
        println!("violation class={} : {}", class, final_v.detail);
        // confirm the file that is reported, in a fresh process
        let confirmed = if no_confirm {
            true
        } else {
            let exe = std::env::current_exe().expect("current_exe");
            std::process::Command::new(exe)
                .arg("--replay")
                .arg(&path)
                .output()
                .map(|o| o.status.code() == Some(EXIT_VIOLATION))
                .unwrap_or(false)
        };
        if confirmed {
            violation_lines.push(format!("VIOLATION property={} replay={}", PROPERTY, path.display()));
            exit = EXIT_VIOLATION;
            break;
        } else {
            eprintln!("harness error: violation did not reproduce from {}", path.display());
            exit = EXIT_HARNESS;
        }
    }
    if let Some(m) = &miri_res {
        if let Some((s, rate, text)) = &m.failure {
            n_viol += 1;
            let path = simcore::verif_root().join("replays").join(format!("C18-miri-{}-{}.json", seed, s));
            let body = json!({"property": PROPERTY, "kind": "miri", "miri_seed": s, "preemption_rate": rate, "workload_seed": seed, "detail": text});
            let _ = simcore::evidence::write_json_atomic(&path, &body);
            println!("{}", text);
            violation_lines.push(format!("VIOLATION property={} replay={}", PROPERTY, path.display()));
            exit = EXIT_VIOLATION;
        }
    }
    if !total.harness_errors.is_empty() && exit == EXIT_OK {
        for e in total.harness_errors.iter().take(5) {
            eprintln!("harness error: {e}");
        }
        exit = EXIT_HARNESS;
    }

    // ---- evidence ----
    let wall = simcore::real_monotonic_s() - t0;
    let mut fault_kinds = serde_json::Map::new();
    for (i, name) in clock::FAULT_NAMES.iter().enumerate() {
        fault_kinds.insert(
            name.to_string(),
            json!({"configured": total.fault_configured[i], "fired_observed_by_a_reading": total.fault_fired[i]}),
        );
    }
    let mut probes = serde_json::Map::new();
    for (i, name) in exec::PROBE_NAMES.iter().enumerate() {
        probes.insert(name.to_string(), json!(total.probes[i]));
    }
    let mut samples = total.samples.clone();
    if samples.is_empty() {
        samples.push(json!({"note": "no clock-dependent operation sampled"}));
    }
    let sim_seconds = (total.sim_ns / 1_000_000_000) as u64;
    let evidence = json!({
        "property_id": PROPERTY,
        "tier": tier,
        "seed": seed,
        "level": "exploration",
        "wall_s": wall,
        "violations": n_viol,
        "coverage": {
            "evaluations": total.ops,
            "distinct_nontrivial": total.distinct.len(),
            "rule": "evaluations = operations (parse / now() / TryFrom<Time>) executed against the real library under the simulated clock and checked against the reference model (sweep + seeded runs; adversarial and seam-fidelity re-executions are counted separately in library_calls). distinct_nontrivial = number of distinct tuples (picture shape incl. which fields are omitted, class of the consumed clock reading [year bucket, month end, February, 31 Dec, 1 Jan, leap year, year%100=99, leap-second repr], readings per call, ok/err) among operations whose expected result was MEASURED to change when the model is evaluated under a second, unrelated clock.",
            "exhaustive": false,
            "samples": samples,
            "runs": run_stats_runs,
            "runs_per_hour": if t2 - t1 > 0.0 { (run_stats_runs as f64 / (t2 - t1) * 3600.0) as u64 } else { 0 },
            "seeds": format!("VERIF_SEED={} -> per-run xoshiro256** streams for run indices 0..{}", seed, n_runs),
            "library_calls": total.lib_calls,
            "sweep": {
                "days_swept": sweep_days,
                "days_in_range": total_days,
                "stride": stride,
                "all_boundary_days_included": true,
                "clock_date_dimension_exhaustive": stride == 1,
                "times_of_day_per_day": if thorough { 5 } else { 4 },
                "battery_ops": battery.len(),
                "battery": battery.iter().map(|o| o.describe()).collect::<Vec<_>>(),
                "ops": sweep_ops,
                "wall_s": t1 - t0,
            },
            "simulated_time_covered": format!("{} s of virtual time advanced by ticks and Advance events inside seeded runs ({} years); sweep spans 0001-01-01..9999-12-31", sim_seconds, sim_seconds / 31_556_952),
            "clock_dependent_ops": total.clock_dependent_ops,
            "independence_checked_ops": total.independence_checked,
            "value_unmodelled_but_checked_clock_free_ops": total.clock_free_only,
            "seam_fidelity_crosschecked_ops": total.crosschecked,
            "seam_fidelity_crosscheck_enabled": crosscheck,
            "relaxed_checks": total.relaxed,
            "unmodelled_skipped": total.unmodelled,
            "skipped_unhooked_read_not_comparable": total.skipped_unrepresentable,
            "readings_per_call_histogram": {"0": total.readings_hist[0], "1": total.readings_hist[1], "2": total.readings_hist[2], "3+": total.readings_hist[3]},
            "outcomes": {"ok": total.outcome_ok, "err": total.outcome_err},
            "ops_by_type": total.by_type,
            "fault_kinds": fault_kinds,
            "probes": probes,
            "environment_swarm": simcore::envswarm::evidence(seed, workers as u64),
            "interleavings": match &miri_res {
                Some(m) => json!({"engine": "Miri seeded scheduler over real std::thread; threads with their own clocks share Formatter objects", "scheduler_seeds_run": m.seeds_run, "preemption_rates": rates, "wall_s": m.wall_s, "skipped": m.skipped}),
                None => json!({"skipped": "--no-miri or earlier violation"}),
            },
            "batch_hash": format!("{:016x}", total.batch_hash),
            "workers": workers,
            "components": {
                "real": ["sqldatetime (parser, defaulting, now(), TryFrom<Time>)", "chrono DateTime/NaiveDateTime field arithmetic", "chrono::Local::now() + std clock path (seam-fidelity cross-check only)"],
                "stub": ["source of the instant: simulator instead of kernel clock and /etc/localtime"]
            },
            "build_profiles": ["release"],
        },
        "assumptions": [
            "all clock reads of the library go through the verif-hooks override or clock_gettime(CLOCK_REALTIME); both are owned by the simulator",
            "texts are rendered by the harness so that the reference model knows which components they supply; texts whose meaning the property leaves open (signs, over-long year digits, adjacent numeric fields) are not generated",
            "error variants and messages are not compared"
        ],
    });
    if let Err(e) = simcore::evidence::write_json_atomic(&out, &evidence) {
        eprintln!("harness error: cannot write evidence: {e}");
        std::process::exit(EXIT_HARNESS);
    }
    println!(
        "C18: ops={} distinct_nontrivial={} clock_dependent_ops={} unmodelled={} batch_hash={:016x} wall={:.1}s",
        total.ops,
        total.distinct.len(),
        total.clock_dependent_ops,
        total.unmodelled,
        total.batch_hash,
        wall
    );
    for l in violation_lines {
        println!("{l}");
    }
    std::process::exit(exit);
}
