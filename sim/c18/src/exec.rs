//! Executes events against the real library under the simulated clock and
//! evaluates the C18 oracle online, after every operation.

use crate::clock::{self, Reading, SharedClock, SimClock};
use crate::model::{self, Exp, Outcome};
use crate::script::*;
use simcore::civil::*;
use simcore::pool::Merge;
use simcore::Fnv;
use std::cell::RefCell;
use std::collections::{BTreeMap, BTreeSet};
use std::convert::TryFrom;
use std::rc::Rc;

thread_local! {
    pub static LAST_PANIC: RefCell<String> = const { RefCell::new(String::new()) };
}

pub fn install_panic_hook() {
    std::panic::set_hook(Box::new(|info| {
        let msg = format!("{}", info);
        let _ = LAST_PANIC.try_with(|p| {
            if let Ok(mut p) = p.try_borrow_mut() {
                *p = msg;
            }
        });
    }));
}

pub const PROBE_NAMES: [&str; 16] = [
    "year_and_month_defaulted_in_last_microsecond_of_year",
    "yy_completion_clock_year_mod100_eq_99",
    "yy_completion_clock_year_mod100_eq_0",
    "yyy_or_y_completion_at_millennium_or_decade_end",
    "month_defaulted_to_30day_month_text_day_31",
    "month_defaulted_to_feb_day29_leap_clock_year",
    "month_defaulted_to_feb_day29_nonleap_clock_year",
    "doy366_year_defaulted_leap",
    "doy366_year_defaulted_nonleap",
    "weekday_checked_against_clock_defaulted_date",
    "hh12_exhausted_input",
    "clock_at_9999_12_31",
    "clock_at_0001_01_01",
    "two_or_more_distinct_readings_in_one_call",
    "reading_in_leap_second_representation",
    "reading_with_year_outside_1_9999",
];

#[derive(Clone, Debug)]
pub struct Violation {
    pub class: &'static str,
    pub detail: String,
    pub op_index: usize,
}

#[derive(Default, Clone)]
pub struct Stats {
    pub runs: u64,
    pub ops: u64,
    pub lib_calls: u64,
    pub unmodelled: u64,
    pub relaxed: u64,
    pub skipped_unrepresentable: u64,
    pub independence_checked: u64,
    /// operations whose value is not modelled but which must be (and were checked to be) clock-free
    pub clock_free_only: u64,
    pub crosschecked: u64,
    pub sim_ns: u128,
    pub fault_configured: [u64; 8],
    pub fault_fired: [u64; 8],
    pub probes: [u64; 16],
    pub readings_hist: [u64; 4],
    pub outcome_ok: u64,
    pub outcome_err: u64,
    pub clock_dependent_ops: u64,
    pub distinct: BTreeSet<u64>,
    pub batch_hash: u64,
    pub samples: Vec<serde_json::Value>,
    pub by_type: BTreeMap<&'static str, u64>,
    pub harness_errors: Vec<String>,
    /// (run index, minimised-later script, violation)
    pub violations: Vec<(u64, Script, Violation)>,
}

pub fn static_class(c: &str) -> &'static str {
    match c {
        "panic" => "panic",
        "independence" => "independence",
        _ => "mismatch",
    }
}

impl Stats {
    /// Serialises the accumulator for hand-over from a worker process; the
    /// (possibly large) distinct set goes to a side file.
    pub fn to_json(&self, side_file: &std::path::Path) -> serde_json::Value {
        let _ = simcore::procpool::write_u64s(side_file, self.distinct.iter().copied());
        serde_json::json!({
            "runs": self.runs, "ops": self.ops, "lib_calls": self.lib_calls, "unmodelled": self.unmodelled,
            "relaxed": self.relaxed, "skipped_unrepresentable": self.skipped_unrepresentable,
            "independence_checked": self.independence_checked, "clock_free_only": self.clock_free_only, "crosschecked": self.crosschecked,
            "sim_ns": self.sim_ns.to_string(),
            "fault_configured": self.fault_configured.to_vec(), "fault_fired": self.fault_fired.to_vec(),
            "probes": self.probes.to_vec(), "readings_hist": self.readings_hist.to_vec(),
            "outcome_ok": self.outcome_ok, "outcome_err": self.outcome_err,
            "clock_dependent_ops": self.clock_dependent_ops,
            "distinct_file": side_file.to_string_lossy(),
            "batch_hash": format!("{:016x}", self.batch_hash),
            "samples": self.samples,
            "by_type": self.by_type,
            "harness_errors": self.harness_errors,
            "violations": self.violations.iter().map(|(i, sc, v)| serde_json::json!({
                "index": i, "script": sc.to_json(), "class": v.class, "detail": v.detail, "op_index": v.op_index,
            })).collect::<Vec<_>>(),
        })
    }

    pub fn from_json(v: &serde_json::Value) -> Stats {
        let u = |k: &str| v[k].as_u64().unwrap_or(0);
        let arr = |k: &str, out: &mut [u64]| {
            if let Some(a) = v[k].as_array() {
                for (i, x) in a.iter().enumerate().take(out.len()) {
                    out[i] = x.as_u64().unwrap_or(0);
                }
            }
        };
        let mut s = Stats {
            runs: u("runs"),
            ops: u("ops"),
            lib_calls: u("lib_calls"),
            unmodelled: u("unmodelled"),
            relaxed: u("relaxed"),
            skipped_unrepresentable: u("skipped_unrepresentable"),
            independence_checked: u("independence_checked"),
            clock_free_only: u("clock_free_only"),
            crosschecked: u("crosschecked"),
            sim_ns: v["sim_ns"].as_str().and_then(|x| x.parse().ok()).unwrap_or(0),
            outcome_ok: u("outcome_ok"),
            outcome_err: u("outcome_err"),
            clock_dependent_ops: u("clock_dependent_ops"),
            batch_hash: v["batch_hash"].as_str().and_then(|h| u64::from_str_radix(h, 16).ok()).unwrap_or(0),
            ..Stats::default()
        };
        arr("fault_configured", &mut s.fault_configured);
        arr("fault_fired", &mut s.fault_fired);
        arr("probes", &mut s.probes);
        arr("readings_hist", &mut s.readings_hist);
        if let Some(f) = v["distinct_file"].as_str() {
            if let Ok(items) = simcore::procpool::read_u64s(std::path::Path::new(f)) {
                s.distinct.extend(items);
            }
            let _ = std::fs::remove_file(f);
        }
        if let Some(a) = v["samples"].as_array() {
            s.samples = a.clone();
        }
        if let Some(m) = v["by_type"].as_object() {
            for (k, n) in m {
                if let Some(ty) = Ty::from_name(k) {
                    s.by_type.insert(ty.name(), n.as_u64().unwrap_or(0));
                }
            }
        }
        if let Some(a) = v["harness_errors"].as_array() {
            s.harness_errors = a.iter().filter_map(|x| x.as_str().map(|y| y.to_string())).collect();
        }
        if let Some(a) = v["violations"].as_array() {
            for x in a {
                if let Ok(sc) = Script::from_json(&x["script"]) {
                    s.violations.push((
                        x["index"].as_u64().unwrap_or(0),
                        sc,
                        Violation {
                            class: static_class(x["class"].as_str().unwrap_or("")),
                            detail: x["detail"].as_str().unwrap_or("").to_string(),
                            op_index: x["op_index"].as_u64().unwrap_or(0) as usize,
                        },
                    ));
                }
            }
        }
        s
    }
}

impl Merge for Stats {
    fn merge(&mut self, o: Self) {
        self.runs += o.runs;
        self.ops += o.ops;
        self.lib_calls += o.lib_calls;
        self.unmodelled += o.unmodelled;
        self.relaxed += o.relaxed;
        self.skipped_unrepresentable += o.skipped_unrepresentable;
        self.independence_checked += o.independence_checked;
        self.clock_free_only += o.clock_free_only;
        self.crosschecked += o.crosschecked;
        self.sim_ns += o.sim_ns;
        for i in 0..8 {
            self.fault_configured[i] += o.fault_configured[i];
            self.fault_fired[i] += o.fault_fired[i];
        }
        for i in 0..16 {
            self.probes[i] += o.probes[i];
        }
        for i in 0..4 {
            self.readings_hist[i] += o.readings_hist[i];
        }
        self.outcome_ok += o.outcome_ok;
        self.outcome_err += o.outcome_err;
        self.clock_dependent_ops += o.clock_dependent_ops;
        self.distinct.extend(o.distinct);
        self.batch_hash = self.batch_hash.wrapping_add(o.batch_hash);
        self.samples.extend(o.samples);
        // keyed by run index: the lowest runs win whatever the worker count
        self.samples.sort_by_key(|s| s["run"].as_u64().unwrap_or(u64::MAX));
        self.samples.truncate(4);
        for (k, v) in o.by_type {
            *self.by_type.entry(k).or_default() += v;
        }
        self.harness_errors.extend(o.harness_errors);
        self.violations.extend(o.violations);
        self.violations.sort_by_key(|v| v.0);
        self.violations.truncate(4);
    }
}

/// Picture and text of a parse operation, concatenated once.
pub struct Prepared {
    pub pic: String,
    pub txt: String,
}

pub fn prepare(op: &Op) -> Prepared {
    Prepared {
        pic: op.picture(),
        txt: op.text(),
    }
}

thread_local! {
    /// long-lived Formatter objects of the current run: slot -> (picture, formatter)
    static FORMATTERS: RefCell<BTreeMap<u32, (String, sqldatetime::Formatter)>> = const { RefCell::new(BTreeMap::new()) };
}

pub fn reset_formatters() {
    FORMATTERS.with(|f| f.borrow_mut().clear());
}

pub fn call_library(kind: &OpKind) -> Outcome {
    call_library_prepared(kind, None, None)
}

fn parse_via_slot(slot: u32, ty: Ty, pic: &str, txt: &str) -> Result<i64, ()> {
    FORMATTERS.with(|f| {
        let mut f = f.borrow_mut();
        let fresh = match f.get(&slot) {
            Some((p, _)) => p != pic,
            None => true,
        };
        if fresh {
            let fmt = sqldatetime::Formatter::try_new(pic).map_err(|_| ())?;
            f.insert(slot, (pic.to_string(), fmt));
        }
        let fmt = &f.get(&slot).expect("slot").1;
        match ty {
            Ty::Date => fmt.parse::<_, sqldatetime::Date>(txt).map(|d| d.days() as i64).map_err(|_| ()),
            Ty::Timestamp => fmt.parse::<_, sqldatetime::Timestamp>(txt).map(|t| t.usecs()).map_err(|_| ()),
            Ty::Oracle => fmt.parse::<_, sqldatetime::OracleDate>(txt).map(|t| t.usecs()).map_err(|_| ()),
            Ty::Time => fmt.parse::<_, sqldatetime::Time>(txt).map(|t| t.usecs()).map_err(|_| ()),
        }
    })
}

pub fn call_library_prepared(kind: &OpKind, prep: Option<&Prepared>, slot: Option<u32>) -> Outcome {
    let res = std::panic::catch_unwind(std::panic::AssertUnwindSafe(|| -> Result<i64, ()> {
        match kind {
            OpKind::Parse { ty, toks } => {
                let owned;
                let (pic, txt): (&str, &str) = match prep {
                    Some(p) => (&p.pic, &p.txt),
                    None => {
                        owned = (
                            toks.iter().map(|t| t.pic.as_str()).collect::<String>(),
                            toks.iter().map(|t| t.txt.as_str()).collect::<String>(),
                        );
                        (&owned.0, &owned.1)
                    }
                };
                if let Some(id) = slot {
                    return parse_via_slot(id, *ty, pic, txt);
                }
                match ty {
                    Ty::Date => sqldatetime::Date::parse(&txt, &pic)
                        .map(|d| d.days() as i64)
                        .map_err(|_| ()),
                    Ty::Timestamp => sqldatetime::Timestamp::parse(&txt, &pic)
                        .map(|t| t.usecs())
                        .map_err(|_| ()),
                    Ty::Oracle => sqldatetime::OracleDate::parse(&txt, &pic)
                        .map(|t| t.usecs())
                        .map_err(|_| ()),
                    Ty::Time => sqldatetime::Time::parse(&txt, &pic)
                        .map(|t| t.usecs())
                        .map_err(|_| ()),
                }
            }
            OpKind::Now { ty } => match ty {
                Ty::Date => sqldatetime::Date::now().map(|d| d.days() as i64).map_err(|_| ()),
                Ty::Timestamp => sqldatetime::Timestamp::now().map(|t| t.usecs()).map_err(|_| ()),
                Ty::Oracle => sqldatetime::OracleDate::now().map(|t| t.usecs()).map_err(|_| ()),
                Ty::Time => Err(()),
            },
            OpKind::FromTime { ty, time_usecs } => {
                let time = sqldatetime::Time::try_from_usecs(*time_usecs).map_err(|_| ())?;
                match ty {
                    Ty::Timestamp => sqldatetime::Timestamp::try_from(time)
                        .map(|t| t.usecs())
                        .map_err(|_| ()),
                    Ty::Oracle => sqldatetime::OracleDate::try_from(time)
                        .map(|t| t.usecs())
                        .map_err(|_| ()),
                    _ => Err(()),
                }
            }
        }
    }));
    match res {
        Ok(Ok(v)) => Outcome::Ok(v),
        Ok(Err(())) => Outcome::Err,
        Err(_) => Outcome::Panic,
    }
}

fn op_ty(kind: &OpKind) -> Ty {
    match kind {
        OpKind::Parse { ty, .. } | OpKind::Now { ty } | OpKind::FromTime { ty, .. } => *ty,
    }
}

/// Runs `kind` under a temporary clock, leaving the thread's main clock installed afterwards.
fn run_under(temp: SimClock, hook: bool, kind: &OpKind, main: &SharedClock) -> (Outcome, Vec<Reading>) {
    let shared: SharedClock = Rc::new(RefCell::new(temp));
    clock::install(&shared, hook);
    let out = call_library(kind);
    let readings = shared.borrow().readings.clone();
    clock::install(main, true);
    (out, readings)
}

fn adversarial_clocks(r: &Reading) -> Vec<SimClock> {
    let mut v = Vec::new();
    // far past, far future, out of range both ways
    v.push(SimClock::new(DATE_MIN_DAYS * SECS_PER_DAY + 1, 1, 0));
    v.push(SimClock::new((DATE_MAX_DAYS + 1) * SECS_PER_DAY - 1, 999_999_999, 0));
    v.push(SimClock::new((DATE_MAX_DAYS + 400) * SECS_PER_DAY, 5, 3600));
    v.push(SimClock::new((DATE_MIN_DAYS - 400) * SECS_PER_DAY, 5, -3600));
    // leap-second representation
    let mut leap = SimClock::new(915_148_799, 500_000_000, 0);
    leap.leap_reads = 8;
    leap.stall_reads = 8;
    v.push(leap);
    // chaos: a wildly different instant on every reading
    let mut chaos = SimClock::new(r.secs.wrapping_mul(31).rem_euclid(250_000_000_000) - 60_000_000_000, 123_456_789, 19_800);
    chaos.ticks = [
        12_345_678_901_234_567,
        9_876_543_210_987_654,
        4_000_000_000_000_000_000,
    ];
    v.push(chaos);
    v
}

fn clock_class(r: &Reading) -> u64 {
    let l = model::local_fields(r);
    let yb: u64 = match l.y {
        i64::MIN..=0 => 0,
        1 => 1,
        2..=1969 => 2,
        1970..=2100 => 3,
        2101..=9998 => 4,
        9999 => 5,
        _ => 6,
    };
    let last_dom = l.d == days_in_month(l.y, l.m);
    let mut c = yb;
    c = c * 2 + last_dom as u64;
    c = c * 2 + (l.m == 2) as u64;
    c = c * 2 + (l.m == 12 && l.d == 31) as u64;
    c = c * 2 + (l.m == 1 && l.d == 1) as u64;
    c = c * 2 + is_leap(l.y) as u64;
    c = c * 2 + (l.y.rem_euclid(100) == 99) as u64;
    c = c * 2 + (l.nanos >= 1_000_000_000) as u64;
    c
}

fn shape_id(kind: &OpKind) -> u64 {
    let mut h = Fnv::new();
    match kind {
        OpKind::Parse { ty, toks } => {
            h.write(ty.name().as_bytes());
            for t in toks {
                let code: u8 = match t.sem {
                    Sem::Blank | Sem::Sep { .. } => continue,
                    Sem::Year { k, .. } => 10 + k,
                    Sem::Month { .. } => 20,
                    Sem::MonthName { .. } => 21,
                    Sem::MonthNumAsName { .. } => 22,
                    Sem::MonthNameGivenNumber { .. } => 23,
                    Sem::Trailing => 50,
                    Sem::Day { .. } => 30,
                    Sem::Doy { .. } => 31,
                    Sem::WdName { .. } => 32,
                    Sem::WdNum { .. } => 33,
                    Sem::H24 { .. } => 40,
                    Sem::H12 { .. } => 41,
                    Sem::Merid { .. } => 42,
                    Sem::Min { .. } => 43,
                    Sem::Sec { .. } => 44,
                    Sem::Frac { .. } => 45,
                };
                h.write(&[code, t.txt.trim().is_empty() as u8]);
            }
        }
        OpKind::Now { ty } => {
            h.write(b"now");
            h.write(ty.name().as_bytes());
        }
        OpKind::FromTime { ty, .. } => {
            h.write(b"from_time");
            h.write(ty.name().as_bytes());
        }
    }
    h.finish()
}

fn probes(kind: &OpKind, r: &Reading, out: Outcome, stats: &mut Stats) {
    let l = model::local_fields(r);
    if l.y == 9999 && l.m == 12 && l.d == 31 {
        stats.probes[11] += 1;
    }
    if l.y == 1 && l.m == 1 && l.d == 1 {
        stats.probes[12] += 1;
    }
    if l.nanos >= 1_000_000_000 {
        stats.probes[14] += 1;
    }
    if !(1..=9999).contains(&l.y) {
        stats.probes[15] += 1;
    }
    if let OpKind::Parse { ty, toks } = kind {
        if !ty.has_date() {
            return;
        }
        let present = |f: &dyn Fn(&Sem) -> bool| toks.iter().any(|t| !t.txt.trim().is_empty() && f(&t.sem));
        let year = toks.iter().find_map(|t| match t.sem {
            Sem::Year { k, n } if !t.txt.trim().is_empty() => Some((k, n)),
            _ => None,
        });
        let has_month = present(&|s| matches!(s, Sem::Month { .. } | Sem::MonthName { .. } | Sem::MonthNumAsName { .. } | Sem::MonthNameGivenNumber { .. }));
        let day = toks.iter().find_map(|t| match t.sem {
            Sem::Day { n } if !t.txt.trim().is_empty() => Some(n),
            _ => None,
        });
        let doy = toks.iter().find_map(|t| match t.sem {
            Sem::Doy { n } if !t.txt.trim().is_empty() => Some(n),
            _ => None,
        });
        let has_wd = present(&|s| matches!(s, Sem::WdName { .. } | Sem::WdNum { .. }));
        let last_us_of_year = l.m == 12 && l.d == 31 && l.h == 23 && l.mi == 59 && l.s == 59 && l.nanos % 1_000_000_000 >= 999_999_000;
        if year.is_none() && !has_month && last_us_of_year {
            stats.probes[0] += 1;
        }
        if let Some((2, _)) = year {
            if l.y.rem_euclid(100) == 99 {
                stats.probes[1] += 1;
            }
            if l.y.rem_euclid(100) == 0 {
                stats.probes[2] += 1;
            }
        }
        if let Some((k, _)) = year {
            if (k == 3 && l.y.rem_euclid(1000) == 999) || (k == 1 && l.y.rem_euclid(10) == 9) {
                stats.probes[3] += 1;
            }
        }
        if !has_month && doy.is_none() {
            if day == Some(31) && days_in_month(l.y, l.m) == 30 && out == Outcome::Err {
                stats.probes[4] += 1;
            }
            if day == Some(29) && l.m == 2 && year.is_none() {
                if is_leap(l.y) {
                    stats.probes[5] += 1;
                } else {
                    stats.probes[6] += 1;
                }
            }
        }
        if doy == Some(366) && year.is_none() {
            if is_leap(l.y) {
                stats.probes[7] += 1;
            } else {
                stats.probes[8] += 1;
            }
        }
        if has_wd && (year.map(|y| y.0 < 4).unwrap_or(true) || !has_month) {
            stats.probes[9] += 1;
        }
        if toks.iter().any(|t| matches!(t.sem, Sem::H12 { .. }) && t.txt.trim().is_empty()) && out != Outcome::Err {
            stats.probes[10] += 1;
        }
    }
}

pub struct ExecOpts {
    pub crosscheck: bool,
    pub collect_samples: bool,
    /// sweep mode: no per-op description in the log, no adversarial re-execution
    pub lean: bool,
    /// run index (for sample selection only)
    pub run: u64,
    /// UTC offset of the process time zone (what an unhooked chrono::Local sees)
    pub process_offset: i32,
}

/// Executes one operation and checks it. Returns a violation, if any.
pub fn exec_op(
    op: &Op,
    op_index: usize,
    clk: &SharedClock,
    stats: &mut Stats,
    log: &mut Fnv,
    opts: &ExecOpts,
    cross_sample: bool,
    prep: Option<&Prepared>,
) -> Option<Violation> {
    let ty = op_ty(&op.kind);
    let r_inv = clk.borrow().peek();
    clk.borrow_mut().begin_op(op.ticks);
    let out = call_library_prepared(&op.kind, prep, op.slot);
    stats.lib_calls += 1;
    stats.ops += 1;
    *stats.by_type.entry(ty.name()).or_default() += 1;
    let (readings, unrep) = {
        let c = clk.borrow();
        (c.readings.clone(), c.unrepresentable_syscall_read)
    };

    // event log (never draws from the PRNG, never reads a clock)
    log.write(b"op");
    if !opts.lean {
        log.write(op.describe().as_bytes());
    }
    for r in &readings {
        log.write_i64(r.secs);
        log.write_u64(r.nanos as u64);
        log.write_i64(r.offset as i64);
        log.write(&[r.via_syscall as u8]);
    }
    match out {
        Outcome::Ok(v) => {
            log.write(b"ok");
            log.write_i64(v);
            stats.outcome_ok += 1;
        }
        Outcome::Err => {
            log.write(b"err");
            stats.outcome_err += 1;
        }
        Outcome::Panic => log.write(b"panic"),
    }
    stats.readings_hist[readings.len().min(3)] += 1;

    if out == Outcome::Panic {
        let msg = LAST_PANIC.with(|p| p.borrow().clone());
        return Some(Violation {
            class: "panic",
            detail: format!("{} panicked: {}", op.describe(), msg),
            op_index,
        });
    }
    if unrep {
        stats.skipped_unrepresentable += 1;
        return None;
    }
    // An unhooked read sees the process time zone, not the simulated offset:
    // comparable only when the two coincide.
    if readings.iter().any(|r| r.via_syscall && r.offset != opts.process_offset) {
        stats.skipped_unrepresentable += 1;
        return None;
    }

    let mut distinct_readings: Vec<(i64, u32, i32)> = readings.iter().map(|r| (r.secs, r.nanos, r.offset)).collect();
    distinct_readings.dedup();
    if distinct_readings.len() >= 2 {
        stats.probes[13] += 1;
    }
    let probe_reading = readings.first().copied().unwrap_or(r_inv);
    probes(&op.kind, &probe_reading, out, stats);

    // an unrelated instant, for clock-dependence measurement
    let r_alt = {
        let mut a = r_inv;
        let shift = 1_180_000_000 + 43 * SECS_PER_DAY + 5 * 2_629_746;
        a.secs = if model::local_fields(&r_inv).y > 5000 { a.secs - shift } else { a.secs + shift };
        a.nanos %= 1_000_000_000;
        a
    };
    let e_inv = model::expect(&op.kind, &r_inv);
    let e_alt = model::expect(&op.kind, &r_alt);
    if e_inv == Exp::Unmodelled || e_alt == Exp::Unmodelled {
        if stats.unmodelled < 5 && std::env::var_os("C18_DEBUG_UNMODELLED").is_some() {
            eprintln!("unmodelled: {}", op.describe());
        }
        stats.unmodelled += 1;
        return None;
    }
    let clock_free_only = e_inv == Exp::ClockFree || e_alt == Exp::ClockFree;
    if clock_free_only {
        stats.clock_free_only += 1;
    }
    let clock_dependent = e_inv != e_alt && !clock_free_only;

    // (1) linearisable clock use
    let ok = if readings.is_empty() {
        model::matches(e_inv, out, ty) && model::matches(e_alt, out, ty)
    } else {
        readings.iter().any(|r| {
            let e = model::expect(&op.kind, r);
            if e == Exp::Relaxed {
                stats.relaxed += 1;
            }
            model::matches(e, out, ty)
        })
    };
    if !ok {
        let exp_desc: Vec<String> = if readings.is_empty() {
            vec![
                format!("no clock reading was taken; expected under clock at invocation {:?}: {:?}", r_inv, e_inv),
                format!("expected under an unrelated clock {:?}: {:?}", r_alt, e_alt),
            ]
        } else {
            readings
                .iter()
                .map(|r| format!("expected from reading {:?}: {:?}", r, model::expect(&op.kind, r)))
                .collect()
        };
        return Some(Violation {
            class: "mismatch",
            detail: format!("{} returned {:?}; {}", op.describe(), out, exp_desc.join("; ")),
            op_index,
        });
    }

    if clock_dependent {
        stats.clock_dependent_ops += 1;
        let mut h = Fnv::new();
        h.write_u64(shape_id(&op.kind));
        h.write_u64(clock_class(&probe_reading));
        h.write_u64(readings.len().min(3) as u64);
        h.write(&[matches!(out, Outcome::Ok(_)) as u8]);
        stats.distinct.insert(h.finish());
        if opts.collect_samples && !opts.lean && stats.samples.iter().all(|x| x["run"].as_u64() != Some(opts.run)) {
            let local_desc = {
                let l = model::local_fields(&probe_reading);
                format!("{:04}-{:02}-{:02} {:02}:{:02}:{:02}", l.y, l.m, l.d, l.h, l.mi, l.s)
            };
            stats.samples.push(serde_json::json!({
                "run": opts.run,
                "op": op.describe(),
                "readings": readings.iter().map(|r| serde_json::json!({"utc_secs": r.secs, "nanos": r.nanos, "offset_secs": r.offset})).collect::<Vec<_>>(),
                "local_date_of_first_reading": local_desc,
                "outcome": format!("{:?}", out),
            }));
        }
    }

    // (2) independence: a text with full year, month and day must not depend on the clock at all
    if let OpKind::Parse { toks, .. } = &op.kind {
        if !opts.lean && (model::is_complete_date(toks) || clock_free_only) {
            stats.independence_checked += 1;
            for adv in adversarial_clocks(&r_inv) {
                let desc = format!("{:?}", adv.peek());
                let (o2, _) = run_under(adv, true, &op.kind, clk);
                stats.lib_calls += 1;
                if o2 != out {
                    return Some(Violation {
                        class: "independence",
                        detail: format!(
                            "{} returned {:?} under the run's clock {:?} but {:?} under clock {}",
                            op.describe(),
                            out,
                            r_inv,
                            o2,
                            desc
                        ),
                        op_index,
                    });
                }
            }
        }
    }

    // seam fidelity: hook path vs real chrono::Local::now() over the interposed clock_gettime
    if opts.crosscheck && cross_sample && r_inv.nanos < 1_000_000_000 && r_inv.offset == opts.process_offset {
        if (200_000..200_000_000_000).contains(&r_inv.secs) {
            let mut frozen = SimClock::new(r_inv.secs, r_inv.nanos, r_inv.offset);
            frozen.stall_reads = u32::MAX;
            let (a, _) = run_under(frozen.clone(), true, &op.kind, clk);
            let (b, rb) = run_under(frozen, false, &op.kind, clk);
            stats.lib_calls += 2;
            stats.crosschecked += 1;
            if a != b {
                stats.harness_errors.push(format!(
                    "seam fidelity: {} gives {:?} through the hook and {:?} through chrono::Local::now() at {:?} ({} syscall reads)",
                    op.describe(), a, b, r_inv, rb.len()
                ));
            }
        }
    }
    None
}

pub fn apply_clock_event(ev: &Ev, clk: &SharedClock, stats: &mut Stats, log: &mut Fnv) {
    use crate::clock::*;
    let mut c = clk.borrow_mut();
    match ev {
        Ev::Advance { ns } => {
            c.advance_ns(*ns as u128);
            c.ticked_ns += *ns as u128;
            c.pending_fault |= 1 << F_ADVANCE;
            stats.fault_configured[F_ADVANCE] += 1;
            log.write(b"adv");
            log.write_u64(*ns);
        }
        Ev::Step { secs } => {
            c.step_secs(*secs);
            c.secs = c.secs.clamp(crate::gen::MIN_SIM_SECS, crate::gen::MAX_SIM_SECS);
            c.pending_fault |= 1 << F_STEP;
            stats.fault_configured[F_STEP] += 1;
            log.write(b"step");
            log.write_i64(*secs);
        }
        Ev::SetWall { secs, nanos, kind } => {
            c.secs = (*secs).clamp(crate::gen::MIN_SIM_SECS, crate::gen::MAX_SIM_SECS);
            c.nanos = (*nanos).min(999_999_999);
            let f = if *kind == 3 { F_OUTOFRANGE } else if *kind == 2 { F_LEAP } else { F_LAND };
            if *kind != 2 {
                c.pending_fault |= 1 << f;
                stats.fault_configured[f] += 1;
            }
            log.write(b"set");
            log.write_i64(*secs);
            log.write_u64(*nanos as u64);
        }
        Ev::Offset { secs } => {
            c.offset_switch = None;
            c.offset = (*secs).clamp(-86_000, 86_000);
            c.pending_fault |= 1 << F_OFFSET;
            stats.fault_configured[F_OFFSET] += 1;
            log.write(b"off");
            log.write_i64(*secs as i64);
        }
        Ev::OffsetAfter { reads, secs } => {
            c.offset_switch = Some(((*reads).max(1), (*secs).clamp(-86_000, 86_000)));
            c.pending_fault |= 1 << F_OFFSET;
            stats.fault_configured[F_OFFSET] += 1;
            log.write(b"offa");
            log.write_u64(*reads as u64);
            log.write_i64(*secs as i64);
        }
        Ev::Leap { reads } => {
            c.leap_reads = *reads;
            c.pending_fault |= 1 << F_LEAP;
            stats.fault_configured[F_LEAP] += 1;
            log.write(b"leap");
            log.write_u64(*reads as u64);
        }
        Ev::Stall { reads } => {
            c.stall_reads = *reads;
            c.pending_fault |= 1 << F_STALL;
            stats.fault_configured[F_STALL] += 1;
            log.write(b"stall");
            log.write_u64(*reads as u64);
        }
        Ev::Op(_) => {}
    }
}

/// Executes a materialised script from its start clock. Returns the first violation.
pub fn run_script(script: &Script, stats: &mut Stats, opts: &ExecOpts) -> (Option<Violation>, u64) {
    let clk: SharedClock = Rc::new(RefCell::new(SimClock::new(
        script.start_secs,
        script.start_nanos.min(999_999_999),
        script.start_offset,
    )));
    clock::install(&clk, true);
    reset_formatters();
    let mut log = Fnv::new();
    log.write_i64(script.start_secs);
    let mut found = None;
    for (i, ev) in script.events.iter().enumerate() {
        match ev {
            Ev::Op(op) => {
                if let Some(v) = exec_op(op, i, &clk, stats, &mut log, opts, false, None) {
                    found = Some(v);
                    break;
                }
            }
            other => apply_clock_event(other, &clk, stats, &mut log),
        }
    }
    finish_clock(&clk, stats);
    clock::uninstall();
    (found, log.finish())
}

pub fn finish_clock(clk: &SharedClock, stats: &mut Stats) {
    let c = clk.borrow();
    stats.sim_ns += c.ticked_ns;
    for i in 0..8 {
        stats.fault_fired[i] += c.fired_faults[i];
    }
}
