//! Frozen-clock sweep over the clock-date dimension: a fixed battery of
//! partial and complete pictures plus the now()/TryFrom<Time> operations is
//! executed with the simulated clock frozen at a given local day and time of
//! day, and checked against the reference model.

use crate::clock::{self, SharedClock, SimClock};
use crate::exec::{self, ExecOpts, Prepared, Stats, Violation};
use crate::script::*;
use simcore::civil::*;
use simcore::rng::Rng;
use simcore::Fnv;
use std::cell::RefCell;
use std::rc::Rc;

fn tk(pic: &str, txt: &str, sem: Sem) -> Tok {
    Tok {
        pic: pic.to_string(),
        txt: txt.to_string(),
        sem,
    }
}
fn sep(ch: u8) -> Tok {
    let s = (ch as char).to_string();
    Tok {
        pic: s.clone(),
        txt: s,
        sem: Sem::Sep { ch },
    }
}
fn sep_omitted(ch: u8) -> Tok {
    Tok {
        pic: (ch as char).to_string(),
        txt: String::new(),
        sem: Sem::Sep { ch },
    }
}
fn blank(txt: &str) -> Tok {
    Tok {
        pic: " ".into(),
        txt: txt.into(),
        sem: Sem::Blank,
    }
}

pub fn battery() -> Vec<Op> {
    let p = |ty: Ty, toks: Vec<Tok>| Op {
        kind: OpKind::Parse { ty, toks },
        ticks: [0; 3],
        slot: None,
    };
    vec![
        // year and month from the clock, day 1
        p(
            Ty::Timestamp,
            vec![
                tk("HH24", "12", Sem::H24 { n: 12 }),
                sep(b':'),
                tk("MI", "34", Sem::Min { n: 34 }),
                sep(b':'),
                tk("SS", "56", Sem::Sec { n: 56 }),
            ],
        ),
        // day 31 / 29 against the current month
        p(Ty::Date, vec![tk("DD", "31", Sem::Day { n: 31 })]),
        p(Ty::Date, vec![tk("dd", "29", Sem::Day { n: 29 })]),
        // 29 Feb against the current year
        p(
            Ty::Date,
            vec![tk("MM", "02", Sem::Month { n: 2 }), sep(b'-'), tk("DD", "29", Sem::Day { n: 29 })],
        ),
        // century completion decides whether xx00-02-29 exists
        p(
            Ty::Date,
            vec![
                tk("YY", "00", Sem::Year { k: 2, n: 0 }),
                sep(b'-'),
                tk("MM", "02", Sem::Month { n: 2 }),
                sep(b'-'),
                tk("DD", "29", Sem::Day { n: 29 }),
            ],
        ),
        p(Ty::Timestamp, vec![tk("YY", "99", Sem::Year { k: 2, n: 99 })]),
        p(
            Ty::Date,
            vec![tk("Y", "9", Sem::Year { k: 1, n: 9 }), sep(b'/'), tk("MM", "12", Sem::Month { n: 12 })],
        ),
        p(Ty::Date, vec![tk("yyy", "999", Sem::Year { k: 3, n: 999 })]),
        p(Ty::Date, vec![tk("YYY", "0", Sem::Year { k: 3, n: 0 }), blank(" "), tk("DD", "1", Sem::Day { n: 1 })]),
        // day of year against the current year
        p(Ty::Date, vec![tk("DDD", "366", Sem::Doy { n: 366 })]),
        p(Ty::Oracle, vec![tk("MON", "feb", Sem::MonthName { n: 2 })]),
        p(Ty::Date, vec![tk("YYYY", "2024", Sem::Year { k: 4, n: 2024 })]),
        // weekday against the clock-defaulted date, HH12 with exhausted input
        p(
            Ty::Timestamp,
            vec![tk("DY", "Mon", Sem::WdName { wd: 2 }), blank(""), tk("HH12", "", Sem::H12 { n: 0 })],
        ),
        p(
            Ty::Oracle,
            vec![
                tk("DD", "15", Sem::Day { n: 15 }),
                blank(" "),
                tk("HH", "11", Sem::H12 { n: 11 }),
                blank(" "),
                tk("PM", "pm", Sem::Merid { pm: true }),
                sep_omitted(b':'),
                tk("MI", "", Sem::Min { n: 0 }),
            ],
        ),
        // complete: must be clock-free
        p(
            Ty::Timestamp,
            vec![
                tk("YYYY", "1999", Sem::Year { k: 4, n: 1999 }),
                sep(b'-'),
                tk("MM", "12", Sem::Month { n: 12 }),
                sep(b'-'),
                tk("DD", "31", Sem::Day { n: 31 }),
                blank(" "),
                tk("HH24", "23", Sem::H24 { n: 23 }),
                sep(b':'),
                tk("MI", "59", Sem::Min { n: 59 }),
                sep(b':'),
                tk("SS", "59", Sem::Sec { n: 59 }),
                sep(b'.'),
                tk("FF6", "999999", Sem::Frac { p: 6 }),
            ],
        ),
        p(
            Ty::Date,
            vec![tk("YYYY", "2000", Sem::Year { k: 4, n: 2000 }), sep(b'-'), tk("DDD", "366", Sem::Doy { n: 366 })],
        ),
        // control
        p(
            Ty::Time,
            vec![tk("HH24", "23", Sem::H24 { n: 23 }), sep(b':'), tk("MI", "59", Sem::Min { n: 59 })],
        ),
        Op { kind: OpKind::Now { ty: Ty::Date }, ticks: [0; 3], slot: None },
        Op { kind: OpKind::Now { ty: Ty::Timestamp }, ticks: [0; 3], slot: None },
        Op { kind: OpKind::Now { ty: Ty::Oracle }, ticks: [0; 3], slot: None },
        Op {
            kind: OpKind::FromTime { ty: Ty::Timestamp, time_usecs: 86_399_999_999 },
            ticks: [0; 3],
            slot: None,
        },
        Op {
            kind: OpKind::FromTime { ty: Ty::Oracle, time_usecs: 43_200_000_001 },
            ticks: [0; 3],
            slot: None,
        },
    ]
}

/// Is `day` (days since 1970) one of the calendar-boundary days that the quick
/// tier always includes?
pub fn is_boundary_day(day: i64) -> bool {
    let (y, m, d) = civil_from_days(day);
    d == days_in_month(y, m)
        || (m == 1 && d == 1)
        || (m == 2 && d >= 28)
        || (m == 3 && d == 1)
        || day <= DATE_MIN_DAYS + 2
        || day >= DATE_MAX_DAYS - 2
}

pub const TIMES_OF_DAY: [(i64, u32); 4] = [
    (0, 0),
    (43_199, 999_999_999),
    (43_200, 0),
    (86_399, 999_999_999),
];

/// Sweeps the days `first..=last` with stride `stride` (plus every boundary
/// day when `boundaries` is set). Work item `index` is one day.
pub fn sweep_day(
    day: i64,
    seed: u64,
    battery: &[Op],
    prepared: &[Prepared],
    with_seeded_time: bool,
    stats: &mut Stats,
) -> Option<(Script, Violation)> {
    let opts = ExecOpts {
        crosscheck: false,
        collect_samples: false,
        lean: true,
        run: u64::MAX,
            process_offset: crate::clock::process_offset(),
    };
    let mut log = Fnv::new();
    let offsets = [0i32, 3600, -18_000, 19_800, 45_900, -43_200];
    let offset = offsets[(day.rem_euclid(offsets.len() as i64)) as usize];
    let mut times: Vec<(i64, u32)> = TIMES_OF_DAY.to_vec();
    if with_seeded_time {
        let mut rng = Rng::for_run(seed, simcore::rng::tag("C18-sweep"), day as u64);
        times.push((rng.range_i64(0, 86_399), rng.below(1_000_000_000) as u32));
    }
    for (sod, nanos) in times {
        // local day `day`, local second-of-day `sod`
        let utc = day * SECS_PER_DAY + sod - offset as i64;
        let mut c = SimClock::new(utc, nanos, offset);
        c.stall_reads = u32::MAX; // frozen
        let clk: SharedClock = Rc::new(RefCell::new(c));
        clock::install(&clk, true);
        for (i, op) in battery.iter().enumerate() {
            clk.borrow_mut().stall_reads = u32::MAX;
            if let Some(v) = exec::exec_op(op, 0, &clk, stats, &mut log, &opts, false, Some(&prepared[i])) {
                clock::uninstall();
                // the script carries the battery prefix too: a violation may
                // depend on what earlier operations left behind in the library
                let mut events = vec![Ev::Stall { reads: u32::MAX }];
                for prev in battery.iter().take(i + 1) {
                    events.push(Ev::Op(prev.clone()));
                }
                let script = Script {
                    seed,
                    run: day as u64,
                    start_secs: utc,
                    start_nanos: nanos,
                    start_offset: offset,
                    events,
                };
                let mut v = v;
                v.op_index = i + 1;
                return Some((script, v));
            }
        }
    }
    clock::uninstall();
    stats.batch_hash = stats
        .batch_hash
        .wrapping_add(simcore::pool::batch_mix(day as u64 ^ 0x5157_4545_5000_0000, log.finish()));
    None
}
