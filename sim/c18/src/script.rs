//! Materialised run scripts: what a run did, in a form that can be executed
//! again without the generator (replay) and shrunk (minimisation).

use serde_json::{json, Value};

#[derive(Clone, Copy, PartialEq, Eq, Debug, PartialOrd, Ord)]
pub enum Ty {
    Date,
    Timestamp,
    Oracle,
    /// time of day: control type, must never consult the clock
    Time,
}

impl Ty {
    pub fn name(self) -> &'static str {
        match self {
            Ty::Date => "Date",
            Ty::Timestamp => "Timestamp",
            Ty::Oracle => "OracleDate",
            Ty::Time => "Time",
        }
    }
    pub fn from_name(s: &str) -> Option<Ty> {
        Some(match s {
            "Date" => Ty::Date,
            "Timestamp" => Ty::Timestamp,
            "OracleDate" => Ty::Oracle,
            "Time" => Ty::Time,
            _ => return None,
        })
    }
    pub fn has_date(self) -> bool {
        !matches!(self, Ty::Time)
    }
    pub fn has_time(self) -> bool {
        !matches!(self, Ty::Date)
    }
    pub fn has_fraction(self) -> bool {
        matches!(self, Ty::Timestamp | Ty::Time)
    }
}

/// What a picture token means and which component value its text carries.
#[derive(Clone, Debug, PartialEq, Eq)]
pub enum Sem {
    Blank,
    /// punctuation; `strict` ones ('/', ',', ';', 'T') must be present in the text
    Sep { ch: u8 },
    Year { k: u8, n: u32 },
    Month { n: u32 },
    /// MON / MONTH picture (text is a month name)
    MonthName { n: u32 },
    /// MM picture whose text is a month name (accepted by the fallback)
    MonthNumAsName { n: u32 },
    /// MON / MONTH picture whose text is a month NUMBER. Whether that is accepted is not
    /// C18's business; what C18 demands is that the outcome does not depend on the clock
    /// when the text supplies the full date
    MonthNameGivenNumber { n: u32 },
    /// text after the last picture element (a zone designator as other systems write it, ...);
    /// the same: accepted or not, the outcome must not depend on the clock
    Trailing,
    Day { n: u32 },
    Doy { n: u32 },
    /// DY / DAY picture; wd 1 = Sunday .. 7 = Saturday
    WdName { wd: u32 },
    WdNum { wd: u32 },
    H24 { n: u32 },
    H12 { n: u32 },
    Merid { pm: bool },
    Min { n: u32 },
    Sec { n: u32 },
    /// p = digits allowed by the picture (FF -> 9); `digits` is the text
    Frac { p: u8 },
}

#[derive(Clone, Debug, PartialEq, Eq)]
pub struct Tok {
    pub pic: String,
    /// text rendered for this token; empty = omitted (only in a truncated tail)
    pub txt: String,
    pub sem: Sem,
}

#[derive(Clone, Debug, PartialEq, Eq)]
pub enum OpKind {
    Parse { ty: Ty, toks: Vec<Tok> },
    Now { ty: Ty },
    FromTime { ty: Ty, time_usecs: i64 },
}

#[derive(Clone, Debug, PartialEq, Eq)]
pub struct Op {
    pub kind: OpKind,
    /// clock advance (ns) after the 1st, 2nd, 3rd.. reading inside the call (cyclic)
    pub ticks: [u64; 3],
    /// Some(id): the parse goes through a long-lived `Formatter` object kept
    /// in slot `id` (created by `Formatter::try_new` on first use, reused by
    /// later operations of the run that name the same slot and picture)
    pub slot: Option<u32>,
}

#[derive(Clone, Debug, PartialEq, Eq)]
pub enum Ev {
    /// virtual time passes
    Advance { ns: u64 },
    /// NTP-style step of the wall clock
    Step { secs: i64 },
    /// put the wall clock at an absolute UTC instant (landing before a boundary, out-of-range years)
    SetWall { secs: i64, nanos: u32, kind: u8 },
    /// DST / zone change: local time jumps, UTC does not
    Offset { secs: i32 },
    /// the same, taking effect after `reads` more readings (between two readings of one call)
    OffsetAfter { reads: u32, secs: i32 },
    /// the next `reads` readings use the leap-second representation (when the instant allows it)
    Leap { reads: u32 },
    /// the next `reads` readings return the identical instant
    Stall { reads: u32 },
    Op(Op),
}

#[derive(Clone, Debug, PartialEq, Eq)]
pub struct Script {
    pub seed: u64,
    pub run: u64,
    pub start_secs: i64,
    pub start_nanos: u32,
    pub start_offset: i32,
    pub events: Vec<Ev>,
}

impl Op {
    pub fn picture(&self) -> String {
        match &self.kind {
            OpKind::Parse { toks, .. } => toks.iter().map(|t| t.pic.as_str()).collect(),
            _ => String::new(),
        }
    }
    pub fn text(&self) -> String {
        match &self.kind {
            OpKind::Parse { toks, .. } => toks.iter().map(|t| t.txt.as_str()).collect(),
            _ => String::new(),
        }
    }
    pub fn describe(&self) -> String {
        match &self.kind {
            OpKind::Parse { ty, .. } => match self.slot {
                Some(id) => format!(
                    "formatter#{}[Formatter::try_new({:?})].parse::<_, {}>({:?})",
                    id,
                    self.picture(),
                    ty.name(),
                    self.text()
                ),
                None => format!("{}::parse({:?}, {:?})", ty.name(), self.text(), self.picture()),
            },
            OpKind::Now { ty } => format!("{}::now()", ty.name()),
            OpKind::FromTime { ty, time_usecs } => {
                format!("{}::try_from(Time[{} us])", ty.name(), time_usecs)
            }
        }
    }
}

fn sem_to_json(s: &Sem) -> Value {
    match s {
        Sem::Blank => json!({"k": "blank"}),
        Sem::Sep { ch } => json!({"k": "sep", "ch": (*ch as char).to_string()}),
        Sem::Year { k, n } => json!({"k": "year", "digits": k, "n": n}),
        Sem::Month { n } => json!({"k": "month", "n": n}),
        Sem::MonthName { n } => json!({"k": "month_name", "n": n}),
        Sem::MonthNumAsName { n } => json!({"k": "month_num_as_name", "n": n}),
        Sem::MonthNameGivenNumber { n } => json!({"k": "month_name_given_number", "n": n}),
        Sem::Trailing => json!({"k": "trailing_text"}),
        Sem::Day { n } => json!({"k": "day", "n": n}),
        Sem::Doy { n } => json!({"k": "doy", "n": n}),
        Sem::WdName { wd } => json!({"k": "wd_name", "n": wd}),
        Sem::WdNum { wd } => json!({"k": "wd_num", "n": wd}),
        Sem::H24 { n } => json!({"k": "h24", "n": n}),
        Sem::H12 { n } => json!({"k": "h12", "n": n}),
        Sem::Merid { pm } => json!({"k": "merid", "pm": pm}),
        Sem::Min { n } => json!({"k": "min", "n": n}),
        Sem::Sec { n } => json!({"k": "sec", "n": n}),
        Sem::Frac { p } => json!({"k": "frac", "p": p}),
    }
}

fn sem_from_json(v: &Value) -> Result<Sem, String> {
    let k = v["k"].as_str().ok_or("sem.k")?;
    let n = || v["n"].as_u64().map(|x| x as u32).ok_or_else(|| "sem.n".to_string());
    Ok(match k {
        "blank" => Sem::Blank,
        "sep" => Sem::Sep {
            ch: v["ch"].as_str().and_then(|s| s.bytes().next()).ok_or("sep.ch")?,
        },
        "year" => Sem::Year {
            k: v["digits"].as_u64().ok_or("year.digits")? as u8,
            n: n()?,
        },
        "month" => Sem::Month { n: n()? },
        "month_name" => Sem::MonthName { n: n()? },
        "month_num_as_name" => Sem::MonthNumAsName { n: n()? },
        "month_name_given_number" => Sem::MonthNameGivenNumber { n: n()? },
        "trailing_text" => Sem::Trailing,
        "day" => Sem::Day { n: n()? },
        "doy" => Sem::Doy { n: n()? },
        "wd_name" => Sem::WdName { wd: n()? },
        "wd_num" => Sem::WdNum { wd: n()? },
        "h24" => Sem::H24 { n: n()? },
        "h12" => Sem::H12 { n: n()? },
        "merid" => Sem::Merid {
            pm: v["pm"].as_bool().ok_or("merid.pm")?,
        },
        "min" => Sem::Min { n: n()? },
        "sec" => Sem::Sec { n: n()? },
        "frac" => Sem::Frac {
            p: v["p"].as_u64().ok_or("frac.p")? as u8,
        },
        other => return Err(format!("unknown sem kind {other}")),
    })
}

fn op_to_json(op: &Op) -> Value {
    let ticks = json!(op.ticks.to_vec());
    match &op.kind {
        OpKind::Parse { ty, toks } => json!({
            "ev": "op", "op": "parse", "type": ty.name(),
            "picture": op.picture(), "text": op.text(), "ticks_ns": ticks, "formatter_slot": op.slot,
            "tokens": toks.iter().map(|t| json!({"pic": t.pic, "txt": t.txt, "sem": sem_to_json(&t.sem)})).collect::<Vec<_>>(),
        }),
        OpKind::Now { ty } => json!({"ev": "op", "op": "now", "type": ty.name(), "ticks_ns": ticks}),
        OpKind::FromTime { ty, time_usecs } => {
            json!({"ev": "op", "op": "from_time", "type": ty.name(), "time_usecs": time_usecs, "ticks_ns": ticks})
        }
    }
}

fn op_from_json(v: &Value) -> Result<Op, String> {
    let ty = Ty::from_name(v["type"].as_str().ok_or("op.type")?).ok_or("op.type value")?;
    let mut ticks = [0u64; 3];
    if let Some(a) = v["ticks_ns"].as_array() {
        for (i, t) in a.iter().take(3).enumerate() {
            ticks[i] = t.as_u64().ok_or("tick")?;
        }
    }
    let kind = match v["op"].as_str().ok_or("op.op")? {
        "parse" => {
            let mut toks = Vec::new();
            for t in v["tokens"].as_array().ok_or("op.tokens")? {
                toks.push(Tok {
                    pic: t["pic"].as_str().ok_or("tok.pic")?.to_string(),
                    txt: t["txt"].as_str().ok_or("tok.txt")?.to_string(),
                    sem: sem_from_json(&t["sem"])?,
                });
            }
            OpKind::Parse { ty, toks }
        }
        "now" => OpKind::Now { ty },
        "from_time" => OpKind::FromTime {
            ty,
            time_usecs: v["time_usecs"].as_i64().ok_or("time_usecs")?,
        },
        o => return Err(format!("unknown op {o}")),
    };
    Ok(Op {
        kind,
        ticks,
        slot: v["formatter_slot"].as_u64().map(|x| x as u32),
    })
}

impl Script {
    pub fn to_json(&self) -> Value {
        let events: Vec<Value> = self
            .events
            .iter()
            .map(|e| match e {
                Ev::Advance { ns } => json!({"ev": "advance", "ns": ns}),
                Ev::Step { secs } => json!({"ev": "step", "secs": secs}),
                Ev::SetWall { secs, nanos, kind } => {
                    json!({"ev": "set_wall", "utc_secs": secs, "nanos": nanos, "kind": kind})
                }
                Ev::Offset { secs } => json!({"ev": "offset", "secs": secs}),
                Ev::OffsetAfter { reads, secs } => json!({"ev": "offset_after_reads", "reads": reads, "secs": secs}),
                Ev::Leap { reads } => json!({"ev": "leap", "reads": reads}),
                Ev::Stall { reads } => json!({"ev": "stall", "reads": reads}),
                Ev::Op(op) => op_to_json(op),
            })
            .collect();
        json!({
            "seed": self.seed, "run": self.run,
            "start": {"utc_secs": self.start_secs, "nanos": self.start_nanos, "offset_secs": self.start_offset},
            "events": events,
            "env": simcore::envswarm::installed_json(),
        })
    }

    pub fn from_json(v: &Value) -> Result<Script, String> {
        let mut events = Vec::new();
        for e in v["events"].as_array().ok_or("events")? {
            let ev = match e["ev"].as_str().ok_or("ev")? {
                "advance" => Ev::Advance {
                    ns: e["ns"].as_u64().ok_or("ns")?,
                },
                "step" => Ev::Step {
                    secs: e["secs"].as_i64().ok_or("secs")?,
                },
                "set_wall" => Ev::SetWall {
                    secs: e["utc_secs"].as_i64().ok_or("utc_secs")?,
                    nanos: e["nanos"].as_u64().ok_or("nanos")? as u32,
                    kind: e["kind"].as_u64().unwrap_or(1) as u8,
                },
                "offset" => Ev::Offset {
                    secs: e["secs"].as_i64().ok_or("secs")? as i32,
                },
                "offset_after_reads" => Ev::OffsetAfter {
                    reads: e["reads"].as_u64().ok_or("reads")? as u32,
                    secs: e["secs"].as_i64().ok_or("secs")? as i32,
                },
                "leap" => Ev::Leap {
                    reads: e["reads"].as_u64().ok_or("reads")? as u32,
                },
                "stall" => Ev::Stall {
                    reads: e["reads"].as_u64().ok_or("reads")? as u32,
                },
                "op" => Ev::Op(op_from_json(e)?),
                o => return Err(format!("unknown event {o}")),
            };
            events.push(ev);
        }
        Ok(Script {
            seed: v["seed"].as_u64().unwrap_or(0),
            run: v["run"].as_u64().unwrap_or(0),
            start_secs: v["start"]["utc_secs"].as_i64().ok_or("start.utc_secs")?,
            start_nanos: v["start"]["nanos"].as_u64().ok_or("start.nanos")? as u32,
            start_offset: v["start"]["offset_secs"].as_i64().ok_or("start.offset_secs")? as i32,
            events,
        })
    }
}
