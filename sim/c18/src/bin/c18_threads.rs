//! Scenario C of C18: several caller threads, each with ITS OWN current date
//! (the clock override is per thread), parse partial pictures through ONE shared
//! `Formatter` object per picture (an `Arc`, as a server's statement cache
//! would) and through the one-shot entry points, and call the `now`
//! constructors. Every result must follow from the calling thread's own clock.
//! Run under Miri: `-Zmiri-seed=<s> -Zmiri-preemption-rate=<p>` fixes the
//! interleaving, so (s, p, workload seed) is one exactly repeatable execution.
//!
//! usage: c18_threads <workload seed> [threads]

use simcore::civil::*;
use simcore::rng::Rng;
use sqldatetime::{Date, Formatter, Timestamp};
use std::cell::Cell;
use std::sync::Arc;

thread_local! {
    /// how often the calling thread's clock override was consulted
    static HOOK_READS: Cell<u64> = const { Cell::new(0) };
}

fn reads() -> u64 {
    HOOK_READS.with(|c| c.get())
}

/// Runs `f`; the result is comparable with the thread's own clock only if the
/// override was consulted during the call (a read that bypasses the hook sees
/// the machine's clock, which this scenario does not control: not comparable,
/// skipped — the single-threaded simulation covers that seam).
fn observed<T>(f: impl FnOnce() -> T) -> Option<T> {
    let before = reads();
    let v = f();
    if reads() > before {
        Some(v)
    } else {
        None
    }
}

/// local instants (days since 1970, second of day) the threads live at: both
/// sides of a month end, a year end, a century end and a leap day
const CLOCKS: [(i64, i64); 8] = [
    (19_753, 86_399), // 2024-01-31 23:59:59
    (19_754, 0),      // 2024-02-01 00:00:00
    (19_722, 86_399), // 2023-12-31 23:59:59
    (19_723, 0),      // 2024-01-01 00:00:00
    (10_956, 86_399), // 1999-12-31 23:59:59
    (10_957, 0),      // 2000-01-01 00:00:00
    (19_782, 43_200), // 2024-02-29 12:00:00
    (47_481, 1),      // 2099-12-31 00:00:01
];

fn main() {
    let args: Vec<String> = std::env::args().collect();
    let workload: u64 = args.get(1).and_then(|s| s.parse().ok()).unwrap_or(1);
    let threads: usize = args.get(2).and_then(|s| s.parse().ok()).unwrap_or(3);
    let shared: Arc<Vec<(&'static str, Formatter)>> = Arc::new(
        ["DD", "HH24:MI", "YY-MM-DD", "Y", "MM-DD"]
            .iter()
            .map(|p| (*p, Formatter::try_new(p).unwrap()))
            .collect(),
    );
    let mut pick = Rng::for_run(workload, 0xC18, 999);
    let mut handles = Vec::new();
    for who in 0..threads {
        let shared = shared.clone();
        // neighbouring threads sit on the two sides of the same boundary
        let base = (pick.usize_below(4)) * 2;
        let (day, sod) = CLOCKS[(base + who % 2) % CLOCKS.len()];
        handles.push(std::thread::spawn(move || {
            sqldatetime::verif_hooks::set_clock(Some(Box::new(move || {
                HOOK_READS.with(|c| c.set(c.get() + 1));
                chrono::DateTime::from_timestamp(day * 86_400 + sod, 0)
                    .unwrap()
                    .with_timezone(&chrono::FixedOffset::east_opt(0).unwrap())
            })));
            let (cy, cm, cd) = civil_from_days(day);
            let mut rng = Rng::for_run(workload, 0xC18, who as u64);
            for round in 0..3 {
                for (pic, f) in shared.iter() {
                    match *pic {
                        "DD" => {
                            let d = 1 + rng.below(28) as u32;
                            if let Some(got) = observed(|| f.parse::<_, Date>(format!("{:02}", d)).unwrap()) {
                                assert_eq!(got.extract(), (cy as i32, cm, d), "thread {who} round {round}: DD under clock {cy}-{cm}-{cd}");
                            }
                        }
                        "HH24:MI" => {
                            if let Some(got) = observed(|| f.parse::<_, Timestamp>("07:30").unwrap()) {
                                assert_eq!(got.extract().0.extract(), (cy as i32, cm, 1), "thread {who} round {round}: HH24:MI under clock {cy}-{cm}-{cd}");
                            }
                        }
                        "YY-MM-DD" => {
                            if let Some(got) = observed(|| f.parse::<_, Date>("05-03-04").unwrap()) {
                                assert_eq!(got.extract(), ((cy - cy % 100 + 5) as i32, 3, 4), "thread {who} round {round}: YY under clock year {cy}");
                            }
                        }
                        "Y" => {
                            if let Some(got) = observed(|| f.parse::<_, Date>("7").unwrap()) {
                                assert_eq!(got.extract(), ((cy - cy % 10 + 7) as i32, cm, 1), "thread {who} round {round}: Y under clock {cy}-{cm}");
                            }
                        }
                        _ => {
                            if let Some(got) = observed(|| f.parse::<_, Date>("06-15").unwrap()) {
                                assert_eq!(got.extract(), (cy as i32, 6, 15), "thread {who} round {round}: MM-DD under clock year {cy}");
                            }
                        }
                    }
                }
                // the one-shot entry point and the now constructors
                if let Some(got) = observed(|| Date::parse("09", "DD").unwrap()) {
                    assert_eq!(got.extract(), (cy as i32, cm, 9), "thread {who}: Date::parse under clock {cy}-{cm}");
                }
                if let Some(got) = observed(|| Date::now().unwrap()) {
                    assert_eq!(got.extract(), (cy as i32, cm, cd), "thread {who}: Date::now");
                }
                if let Some(ts) = observed(|| Timestamp::now().unwrap()) {
                    assert_eq!(ts.usecs(), (day * 86_400 + sod) * 1_000_000, "thread {who}: Timestamp::now");
                }
            }
        }));
    }
    for h in handles {
        h.join().expect("a thread saw a date that was not its own");
    }
}
