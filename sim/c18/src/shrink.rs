//! Minimisation of a failing script: drop events, drop picture tokens,
//! simplify ticks / blanks / clock, while the same violation class persists.

use crate::exec::{run_script, ExecOpts, Stats};
use crate::script::*;

fn fails(s: &Script, class: &str) -> bool {
    let mut st = Stats::default();
    let opts = ExecOpts { crosscheck: false, collect_samples: false, lean: false };
    match run_script(s, &mut st, &opts).0 {
        Some(v) => v.class == class,
        None => false,
    }
}

fn failing_index(s: &Script) -> Option<usize> {
    let mut st = Stats::default();
    let opts = ExecOpts { crosscheck: false, collect_samples: false, lean: false };
    run_script(s, &mut st, &opts).0.map(|v| v.op_index)
}

pub fn shrink(mut s: Script, class: &str) -> Script {
    if !fails(&s, class) {
        return s;
    }
    let mut budget = 4000usize;
    loop {
        let mut changed = false;
        // cut everything after the failing op
        if let Some(i) = failing_index(&s) {
            if i + 1 < s.events.len() {
                let mut c = s.clone();
                c.events.truncate(i + 1);
                if fails(&c, class) {
                    s = c;
                    changed = true;
                }
            }
        }
        // drop single events, last first
        let mut i = s.events.len();
        while i > 0 && budget > 0 {
            i -= 1;
            budget -= 1;
            let mut c = s.clone();
            c.events.remove(i);
            if fails(&c, class) {
                s = c;
                changed = true;
            }
        }
        // simplify each remaining op
        for ei in 0..s.events.len() {
            if let Ev::Op(op) = &s.events[ei] {
                let mut cands: Vec<Op> = Vec::new();
                if op.ticks != [0, 0, 0] {
                    let mut o = op.clone();
                    o.ticks = [0, 0, 0];
                    cands.push(o);
                }
                if let OpKind::Parse { ty, toks } = &op.kind {
                    for ti in (0..toks.len()).rev() {
                        let mut t2 = toks.clone();
                        t2.remove(ti);
                        cands.push(Op { kind: OpKind::Parse { ty: *ty, toks: t2 }, ticks: op.ticks });
                    }
                    let mut t3 = toks.clone();
                    let mut any = false;
                    for t in t3.iter_mut() {
                        let tt = t.txt.trim().to_string();
                        if tt != t.txt && !matches!(t.sem, Sem::Blank) {
                            t.txt = tt;
                            any = true;
                        }
                        let up = t.pic.to_ascii_uppercase();
                        if up != t.pic {
                            t.pic = up;
                            any = true;
                        }
                    }
                    if any {
                        cands.push(Op { kind: OpKind::Parse { ty: *ty, toks: t3 }, ticks: op.ticks });
                    }
                }
                for cand in cands {
                    if budget == 0 {
                        break;
                    }
                    budget -= 1;
                    let mut c = s.clone();
                    c.events[ei] = Ev::Op(cand);
                    if fails(&c, class) {
                        s = c;
                        changed = true;
                        break; // token indices moved; revisit on the next pass
                    }
                }
            }
        }
        // simplify the start clock
        for f in 0..3 {
            let mut c = s.clone();
            match f {
                0 if c.start_offset != 0 => {
                    c.start_secs += c.start_offset as i64;
                    c.start_offset = 0;
                }
                1 if c.start_nanos != 0 => c.start_nanos = 0,
                2 if c.start_secs % 86_400 != 0 => c.start_secs -= c.start_secs.rem_euclid(86_400),
                _ => continue,
            }
            if fails(&c, class) {
                s = c;
                changed = true;
            }
        }
        if !changed || budget == 0 {
            break;
        }
    }
    s
}
