//! Minimisation of a failing script: drop events, drop picture tokens,
//! simplify ticks / blanks / clock, while the same violation class persists.

use crate::exec::{run_script, ExecOpts, Stats};
use crate::script::*;

/// In-process predicate: fast, but sees whatever hidden state earlier runs
/// left in the library (a cache in a static, say).
pub fn fails_in_process(s: &Script, class: &str) -> Option<usize> {
    let mut st = Stats::default();
    let opts = ExecOpts { crosscheck: false, collect_samples: false, lean: false, run: u64::MAX, process_offset: crate::clock::process_offset() };
    match run_script(s, &mut st, &opts).0 {
        Some(v) if v.class == class => Some(v.op_index),
        _ => None,
    }
}

/// Fresh-process predicate: executes the script with `--replay` in a new
/// process, so that no state from earlier runs can take part.
pub fn fails_in_fresh_process(s: &Script, class: &str) -> Option<usize> {
    let path = simcore::verif_root()
        .join("sim")
        .join("target")
        .join(format!("c18-scratch-{}.json", std::process::id()));
    let body = serde_json::json!({"property": "C18", "class": class, "script": s.to_json()});
    simcore::evidence::write_json_atomic(&path, &body).ok()?;
    let exe = std::env::current_exe().ok()?;
    let o = std::process::Command::new(exe)
        .arg("--replay")
        .arg(&path)
        .arg("--expect-class")
        .arg(class)
        .output()
        .ok()?;
    let _ = std::fs::remove_file(&path);
    if o.status.code() != Some(simcore::EXIT_VIOLATION) {
        return None;
    }
    let text = String::from_utf8_lossy(&o.stdout);
    text.lines()
        .find_map(|l| l.strip_prefix("failing-event-index "))
        .and_then(|x| x.trim().parse().ok())
}

pub type Pred<'a> = &'a dyn Fn(&Script, &str) -> Option<usize>;

pub fn shrink(mut s: Script, class: &str, pred: Pred, mut budget: usize) -> Script {
    let fails = |c: &Script, class: &str| pred(c, class).is_some();
    let failing_index = |c: &Script| pred(c, class);
    if !fails(&s, class) {
        return s;
    }
    loop {
        let mut changed = false;
        // cut everything after the failing op
        if let Some(i) = failing_index(&s) {
            if i + 1 < s.events.len() {
                let mut c = s.clone();
                c.events.truncate(i + 1);
                if fails(&c, class) {
                    s = c;
                    changed = true;
                }
            }
        }
        // drop single events, last first
        let mut i = s.events.len();
        while i > 0 && budget > 0 {
            i -= 1;
            budget -= 1;
            let mut c = s.clone();
            c.events.remove(i);
            if fails(&c, class) {
                s = c;
                changed = true;
            }
        }
        // simplify each remaining op
        for ei in 0..s.events.len() {
            if let Ev::Op(op) = &s.events[ei] {
                let mut cands: Vec<Op> = Vec::new();
                if op.ticks != [0, 0, 0] {
                    let mut o = op.clone();
                    o.ticks = [0, 0, 0];
                    cands.push(o);
                }
                if op.slot.is_some() {
                    let mut o = op.clone();
                    o.slot = None;
                    cands.push(o);
                }
                if let OpKind::Parse { ty, toks } = &op.kind {
                    for ti in (0..toks.len()).rev() {
                        let mut t2 = toks.clone();
                        t2.remove(ti);
                        cands.push(Op { kind: OpKind::Parse { ty: *ty, toks: t2 }, ticks: op.ticks, slot: op.slot });
                    }
                    let mut t3 = toks.clone();
                    let mut any = false;
                    for t in t3.iter_mut() {
                        let tt = t.txt.trim().to_string();
                        if tt != t.txt && !matches!(t.sem, Sem::Blank) {
                            t.txt = tt;
                            any = true;
                        }
                        let up = t.pic.to_ascii_uppercase();
                        if up != t.pic {
                            t.pic = up;
                            any = true;
                        }
                    }
                    if any {
                        cands.push(Op { kind: OpKind::Parse { ty: *ty, toks: t3 }, ticks: op.ticks, slot: op.slot });
                    }
                }
                for cand in cands {
                    if budget == 0 {
                        break;
                    }
                    budget -= 1;
                    let mut c = s.clone();
                    c.events[ei] = Ev::Op(cand);
                    if fails(&c, class) {
                        s = c;
                        changed = true;
                        break; // token indices moved; revisit on the next pass
                    }
                }
            }
        }
        // simplify the start clock
        for f in 0..3 {
            let mut c = s.clone();
            match f {
                0 if c.start_offset != 0 => {
                    c.start_secs += c.start_offset as i64;
                    c.start_offset = 0;
                }
                1 if c.start_nanos != 0 => c.start_nanos = 0,
                2 if c.start_secs % 86_400 != 0 => c.start_secs -= c.start_secs.rem_euclid(86_400),
                _ => continue,
            }
            if fails(&c, class) {
                s = c;
                changed = true;
            }
        }
        if !changed || budget == 0 {
            break;
        }
    }
    s
}
