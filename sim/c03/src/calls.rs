//! The workload of C03: calls over the safe public surface of the six types
//! and `Formatter`, with concrete arguments, in a form that can be generated
//! from a seed, written to a replay file, and executed under a fault pass.

use crate::sink::FaultySink;
use serde_json::{json, Value};
use simcore::rng::Rng;
use sqldatetime::{Date, DateTime, Formatter, IntervalDT, IntervalYM, OracleDate, Round, Time, Timestamp, Trunc};
use std::convert::TryFrom;
use std::fmt::Write as _;
use std::hint::black_box as bb;

#[derive(Clone, Copy, PartialEq, Eq, Debug, PartialOrd, Ord)]
pub enum Ty {
    Date,
    Timestamp,
    Time,
    IntervalYM,
    IntervalDT,
    Oracle,
}

pub const ALL_TYPES: [Ty; 6] = [Ty::Date, Ty::Timestamp, Ty::Time, Ty::IntervalYM, Ty::IntervalDT, Ty::Oracle];

impl Ty {
    pub fn name(self) -> &'static str {
        match self {
            Ty::Date => "Date",
            Ty::Timestamp => "Timestamp",
            Ty::Time => "Time",
            Ty::IntervalYM => "IntervalYM",
            Ty::IntervalDT => "IntervalDT",
            Ty::Oracle => "OracleDate",
        }
    }
    pub fn from_name(s: &str) -> Option<Ty> {
        ALL_TYPES.iter().copied().find(|t| t.name() == s)
    }
    pub fn lo(self) -> i64 {
        match self {
            Ty::Date => -719_162,
            Ty::Timestamp | Ty::Oracle => -62_135_596_800_000_000,
            Ty::Time => 0,
            Ty::IntervalYM => -2_136_000_000,
            Ty::IntervalDT => -8_640_000_000_000_000_000,
        }
    }
    pub fn hi(self) -> i64 {
        match self {
            Ty::Date => 2_932_896,
            Ty::Timestamp => 253_402_300_799_999_999,
            Ty::Oracle => 253_402_300_799_000_000,
            Ty::Time => 86_399_999_999,
            Ty::IntervalYM => 2_136_000_000,
            Ty::IntervalDT => 8_640_000_000_000_000_000,
        }
    }
}

/// A valid value of `ty` (raw count): range ends, unit boundaries, small
/// field values (day 31/32/33 of an interval, month 0 ..), log-uniform
/// magnitudes and uniform draws.
pub fn draw_value(rng: &mut Rng, ty: Ty) -> i64 {
    let (lo, hi) = (ty.lo(), ty.hi());
    const DAY: i64 = 86_400_000_000;
    let v = match rng.below(12) {
        0 => lo,
        1 => hi,
        2 => *rng.pick(&[0i64, 1, -1, lo + 1, hi - 1]),
        3 => {
            let unit = match ty {
                Ty::Date => *rng.pick(&[1i64, 7, 365, 36_524]),
                Ty::IntervalYM => 12,
                _ => *rng.pick(&[1_000_000i64, 60_000_000, 3_600_000_000, DAY, 31_536_000_000_000]),
            };
            let k = rng.range_i64(lo / unit, hi / unit);
            k.saturating_mul(unit).saturating_add(*rng.pick(&[-1i64, 0, 1]))
        }
        4 | 5 => {
            // small field values
            let sign = if rng.bool() { 1 } else { -1 };
            match ty {
                Ty::IntervalDT => {
                    let d = *rng.pick(&[0i64, 1, 9, 10, 28, 29, 30, 31, 32, 33, 34, 99, 100, 365, 366, 999, 1000, 99_999_999]);
                    sign * (d * DAY + rng.range_i64(0, DAY - 1) * rng.below(2) as i64)
                }
                Ty::IntervalYM => {
                    let y = *rng.pick(&[0i64, 1, 9, 10, 99, 100, 999, 1000, 9999, 10_000, 177_999_999]);
                    sign * (y * 12 + rng.range_i64(0, 11))
                }
                Ty::Time => *rng.pick(&[0i64, 1, 999_999, 1_000_000, 59_999_999, 60_000_000, 3_599_999_999, 3_600_000_000, 43_199_999_999, 43_200_000_000, 86_399_000_000]),
                Ty::Date | Ty::Timestamp | Ty::Oracle => {
                    // calendar corner days: month ends, leap days, year ends, first/last years
                    let y = *rng.pick(&[1i64, 2, 4, 100, 400, 1582, 1900, 1970, 1999, 2000, 2024, 2100, 9996, 9998, 9999]);
                    let (m, d) = *rng.pick(&[(1u32, 1u32), (1, 31), (2, 28), (2, 29), (3, 1), (4, 30), (6, 30), (7, 1), (12, 30), (12, 31), (10, 15), (11, 16)]);
                    let d = d.min(simcore::civil::days_in_month(y, m));
                    let days = simcore::civil::days_from_civil(y, m, d);
                    if ty == Ty::Date {
                        days
                    } else {
                        days * DAY + *rng.pick(&[0i64, 1, 43_199_999_999, 43_200_000_000, 86_399_999_999, 1_800_000_000, 82_800_000_000])
                    }
                }
            }
        }
        6 | 7 => {
            // log-uniform magnitude
            let max_mag = hi.unsigned_abs().max(lo.unsigned_abs());
            let bits = 64 - max_mag.leading_zeros() as u64;
            let e = rng.below(bits.max(1));
            let mag = (1u64 << e) + rng.below(1u64 << e);
            let v = mag.min(i64::MAX as u64) as i64;
            if rng.bool() {
                v
            } else {
                -v
            }
        }
        _ => rng.range_i64(lo, hi),
    }
    .clamp(lo, hi);
    if ty == Ty::Oracle {
        (v.div_euclid(1_000_000) * 1_000_000).clamp(lo, hi)
    } else {
        v
    }
}

pub fn draw_f64(rng: &mut Rng) -> f64 {
    match rng.below(12) {
        0 => *rng.pick(&[0.0, -0.0, 1.0, -1.0, 0.5, -0.5, 2.0]),
        1 => *rng.pick(&[f64::NAN, f64::INFINITY, f64::NEG_INFINITY]),
        2 => *rng.pick(&[f64::MAX, f64::MIN, f64::MIN_POSITIVE, -f64::MIN_POSITIVE, 5e-324, -5e-324, f64::EPSILON]),
        3 => *rng.pick(&[
            9007199254740992.0,
            9007199254740993.0,
            9007199254740991.0,
            -9007199254740992.0,
            -9007199254740991.0,
            9.223372036854775807e18,
            -9.223372036854775808e18,
            2147483647.0,
            2147483648.0,
            -2147483648.0,
            -2147483649.0,
        ]),
        4 => *rng.pick(&[1e300, -1e300, 1e-300, 1e19, -1e19, 1e18, 3652059.0, -3652059.0, 1e10, 1e-10]),
        5 => f64::from_bits(rng.next_u64()),
        6 => rng.range_i64(-4_000_000, 4_000_000) as f64,
        7 => {
            if rng.bool() {
                rng.range_i64(-4_000_000, 4_000_000) as f64 + 0.5
            } else {
                // decimals as people write them: 1.16, 0.58, 2.5 ...
                rng.range_i64(-500, 500) as f64 / 100.0
            }
        }
        _ => (rng.range_i64(-2_000_000_000, 2_000_000_000) as f64) / *rng.pick(&[1.0, 3.0, 7.0, 1000.0, 86400.0, 1e6]),
    }
}

pub fn draw_i32(rng: &mut Rng) -> i32 {
    match rng.below(6) {
        0 => *rng.pick(&[i32::MIN, i32::MAX, i32::MIN + 1, i32::MAX - 1, 0, 1, -1]),
        1 => *rng.pick(&[3_652_058, 3_652_059, -3_652_058, -3_652_059, 2_932_896, -719_162, 719_162, 9999, 10000]),
        2 => rng.range_i64(-40, 40) as i32,
        _ => rng.next_u64() as i32,
    }
}

pub fn draw_u32(rng: &mut Rng) -> u32 {
    match rng.below(6) {
        0 => *rng.pick(&[0u32, 1, u32::MAX, u32::MAX - 1, 0x8000_0000, 0x7fff_ffff]),
        1 => *rng.pick(&[12u32, 13, 23, 24, 28, 29, 30, 31, 32, 59, 60, 61, 999_999, 1_000_000, 9999, 10_000, 178_000_000, 100_000_000, 357_913_942]),
        2 | 3 => rng.below(64) as u32,
        _ => rng.next_u64() as u32,
    }
}

#[derive(Clone, Debug, PartialEq)]
pub struct Args {
    /// two valid raw values per type, in ALL_TYPES order
    pub raws: [[i64; 2]; 6],
    pub i: i32,
    pub f_bits: u64,
    pub u: [u32; 5],
    pub y: i32,
}

pub struct Vals {
    pub d: Date,
    pub d2: Date,
    pub ts: Timestamp,
    pub ts2: Timestamp,
    pub t: Time,
    pub t2: Time,
    pub ym: IntervalYM,
    pub ym2: IntervalYM,
    pub dt: IntervalDT,
    pub dt2: IntervalDT,
    pub od: OracleDate,
    pub od2: OracleDate,
    pub i: i32,
    pub f: f64,
    pub u: [u32; 5],
    pub y: i32,
}

impl Args {
    pub fn draw(rng: &mut Rng) -> Args {
        let mut raws = [[0i64; 2]; 6];
        for (k, ty) in ALL_TYPES.iter().enumerate() {
            raws[k] = [draw_value(rng, *ty), draw_value(rng, *ty)];
        }
        let mut a = Args {
            raws,
            i: draw_i32(rng),
            f_bits: draw_f64(rng).to_bits(),
            u: [draw_u32(rng), draw_u32(rng), draw_u32(rng), draw_u32(rng), draw_u32(rng)],
            y: draw_i32(rng),
        };
        // boundary-completing operands: choose the second operand so that the
        // result of a sum or difference lands on (or one unit next to) a
        // boundary of the result type
        if rng.chance(1, 3) {
            const DAY: i64 = 86_400_000_000;
            let d = *rng.pick(&[-1i64, 0, 0, 1]);
            let fit = |ty: Ty, v: i128| -> Option<i64> {
                if v >= ty.lo() as i128 && v <= ty.hi() as i128 {
                    Some(v as i64)
                } else {
                    None
                }
            };
            let (date, ts, t, od) = (a.raws[0][0] as i128, a.raws[1][0] as i128, a.raws[2][0] as i128, a.raws[5][0] as i128);
            match rng.below(10) {
                8 => {
                    // leap-day anniversaries: 29 February plus or minus a whole number of years, onto
                    // leap years, common years and century years alike
                    let y = *rng.pick(&[4i64, 400, 1896, 1904, 1996, 2000, 2024, 2096, 2396, 9996]);
                    let day = simcore::civil::days_from_civil(y, 2, 29);
                    let tod = a.raws[1][0].rem_euclid(DAY);
                    a.raws[0][0] = day;
                    a.raws[1][0] = day * DAY + tod;
                    a.raws[5][0] = day * DAY + tod / 1_000_000 * 1_000_000;
                    let years = *rng.pick(&[1i64, 4, 8, 12, 96, 100, 104, 200, 400, 1000]) * if rng.bool() { 1 } else { -1 };
                    if let Some(v) = fit(Ty::IntervalYM, years as i128 * 12) {
                        a.raws[3][0] = v;
                    }
                }
                9 => {
                    // whole days (or months) scaled by a "human" factor: a percentage, a simple fraction
                    let days = rng.range_i64(1, 120) * if rng.bool() { 1 } else { -1 };
                    a.raws[4][0] = days * DAY;
                    a.raws[3][0] = rng.range_i64(1, 240) * if rng.bool() { 1 } else { -1 };
                    let f = match rng.below(3) {
                        0 => rng.range_i64(1, 300) as f64 / 100.0,
                        1 => 1.0 / rng.range_i64(1, 60) as f64,
                        _ => rng.range_i64(1, 400) as f64 / *rng.pick(&[3.0, 7.0, 12.0, 24.0, 60.0, 1000.0]),
                    };
                    a.f_bits = (if rng.chance(1, 4) { -f } else { f }).to_bits();
                }
                0 => {
                    // time + interval lands on a day boundary
                    let k = rng.range_i64(-3, 3) as i128;
                    if let Some(v) = fit(Ty::IntervalDT, k * DAY as i128 + DAY as i128 - t + d as i128) {
                        a.raws[4][0] = v;
                    }
                }
                1 => {
                    // timestamp +/- interval lands on a range end
                    let end = if rng.bool() { Ty::Timestamp.hi() } else { Ty::Timestamp.lo() } as i128;
                    let v = if rng.bool() { end - ts } else { ts - end };
                    if let Some(v) = fit(Ty::IntervalDT, v + d as i128) {
                        a.raws[4][0] = v;
                    }
                }
                2 => {
                    // oracle date +/- interval lands on a range end
                    let end = if rng.bool() { Ty::Oracle.hi() } else { Ty::Oracle.lo() } as i128;
                    let v = if rng.bool() { end - od } else { od - end };
                    if let Some(v) = fit(Ty::IntervalDT, v + d as i128 * 1_000_000) {
                        a.raws[4][0] = v;
                    }
                }
                3 => {
                    // date +/- days lands on a range end
                    let end = if rng.bool() { Ty::Date.hi() } else { Ty::Date.lo() } as i128;
                    let v = if rng.bool() { end - date } else { date - end } + d as i128;
                    if v >= i32::MIN as i128 && v <= i32::MAX as i128 {
                        a.i = v as i32;
                    }
                    a.f_bits = ((end - ts / DAY as i128) as f64 + d as f64 * 0.5).to_bits();
                }
                4 => {
                    // timestamp +/- time lands on a day boundary or a range end
                    let frac = ts.rem_euclid(DAY as i128);
                    let v = if rng.bool() { DAY as i128 - frac } else { frac } + d as i128;
                    if let Some(v) = fit(Ty::Time, v) {
                        a.raws[2][0] = v;
                    }
                }
                5 => {
                    // intervals summing to a range end
                    let end = if rng.bool() { Ty::IntervalDT.hi() } else { Ty::IntervalDT.lo() } as i128;
                    if let Some(v) = fit(Ty::IntervalDT, end - a.raws[4][0] as i128 + d as i128) {
                        a.raws[4][1] = v;
                    }
                    let endm = if rng.bool() { Ty::IntervalYM.hi() } else { Ty::IntervalYM.lo() } as i128;
                    if let Some(v) = fit(Ty::IntervalYM, endm - a.raws[3][0] as i128 + d as i128) {
                        a.raws[3][1] = v;
                    }
                }
                6 => {
                    // date + months lands in the first / last supported year
                    let (y, m, _) = simcore::civil::civil_from_days(date as i64);
                    let target_y = if rng.bool() { 9999i128 } else { 1 };
                    let months = (target_y - y as i128) * 12 + (rng.range_i64(1, 12) as i128 - m as i128) + d as i128 * 12;
                    if let Some(v) = fit(Ty::IntervalYM, months) {
                        a.raws[3][0] = v;
                    }
                }
                _ => {
                    // equal operands (differences of zero) and exact noon / midnight
                    a.raws[1][1] = a.raws[1][0];
                    a.raws[2][1] = a.raws[2][0];
                    a.raws[2][0] = *rng.pick(&[0i64, 43_200_000_000, 86_399_999_999, 43_199_999_999]);
                }
            }
        }
        a
    }
    pub fn vals(&self) -> Option<Vals> {
        Some(Vals {
            d: Date::try_from_days(self.raws[0][0] as i32).ok()?,
            d2: Date::try_from_days(self.raws[0][1] as i32).ok()?,
            ts: Timestamp::try_from_usecs(self.raws[1][0]).ok()?,
            ts2: Timestamp::try_from_usecs(self.raws[1][1]).ok()?,
            t: Time::try_from_usecs(self.raws[2][0]).ok()?,
            t2: Time::try_from_usecs(self.raws[2][1]).ok()?,
            ym: IntervalYM::try_from_months(self.raws[3][0] as i32).ok()?,
            ym2: IntervalYM::try_from_months(self.raws[3][1] as i32).ok()?,
            dt: IntervalDT::try_from_usecs(self.raws[4][0]).ok()?,
            dt2: IntervalDT::try_from_usecs(self.raws[4][1]).ok()?,
            od: OracleDate::try_from_usecs(self.raws[5][0]).ok()?,
            od2: OracleDate::try_from_usecs(self.raws[5][1]).ok()?,
            i: self.i,
            f: f64::from_bits(self.f_bits),
            u: self.u,
            y: self.y,
        })
    }
    pub fn to_json(&self) -> Value {
        json!({
            "raws": self.raws.iter().map(|p| json!([p[0], p[1]])).collect::<Vec<_>>(),
            "i": self.i, "f_bits": format!("{:016x}", self.f_bits), "f": format!("{:e}", f64::from_bits(self.f_bits)),
            "u": self.u.to_vec(), "y": self.y,
        })
    }
    pub fn from_json(v: &Value) -> Result<Args, String> {
        let mut raws = [[0i64; 2]; 6];
        let arr = v["raws"].as_array().ok_or("raws")?;
        for k in 0..6 {
            raws[k] = [arr[k][0].as_i64().ok_or("raw")?, arr[k][1].as_i64().ok_or("raw")?];
        }
        let mut u = [0u32; 5];
        for k in 0..5 {
            u[k] = v["u"][k].as_u64().ok_or("u")? as u32;
        }
        Ok(Args {
            raws,
            i: v["i"].as_i64().ok_or("i")? as i32,
            f_bits: u64::from_str_radix(v["f_bits"].as_str().ok_or("f_bits")?, 16).map_err(|e| e.to_string())?,
            u,
            y: v["y"].as_i64().ok_or("y")? as i32,
        })
    }
}

macro_rules! trunc_round {
    ($v:ident, $field:ident, $prefix:literal) => {
        [
            (concat!($prefix, "::trunc_century"), (|$v: &Vals| { bb($v.$field.trunc_century().is_ok()); }) as fn(&Vals)),
            (concat!($prefix, "::trunc_year"), |$v| { bb($v.$field.trunc_year().is_ok()); }),
            (concat!($prefix, "::trunc_iso_year"), |$v| { bb($v.$field.trunc_iso_year().is_ok()); }),
            (concat!($prefix, "::trunc_quarter"), |$v| { bb($v.$field.trunc_quarter().is_ok()); }),
            (concat!($prefix, "::trunc_month"), |$v| { bb($v.$field.trunc_month().is_ok()); }),
            (concat!($prefix, "::trunc_week"), |$v| { bb($v.$field.trunc_week().is_ok()); }),
            (concat!($prefix, "::trunc_iso_week"), |$v| { bb($v.$field.trunc_iso_week().is_ok()); }),
            (concat!($prefix, "::trunc_month_start_week"), |$v| { bb($v.$field.trunc_month_start_week().is_ok()); }),
            (concat!($prefix, "::trunc_day"), |$v| { bb($v.$field.trunc_day().is_ok()); }),
            (concat!($prefix, "::trunc_sunday_start_week"), |$v| { bb($v.$field.trunc_sunday_start_week().is_ok()); }),
            (concat!($prefix, "::trunc_hour"), |$v| { bb($v.$field.trunc_hour().is_ok()); }),
            (concat!($prefix, "::trunc_minute"), |$v| { bb($v.$field.trunc_minute().is_ok()); }),
            (concat!($prefix, "::round_century"), |$v| { bb($v.$field.round_century().is_ok()); }),
            (concat!($prefix, "::round_year"), |$v| { bb($v.$field.round_year().is_ok()); }),
            (concat!($prefix, "::round_iso_year"), |$v| { bb($v.$field.round_iso_year().is_ok()); }),
            (concat!($prefix, "::round_quarter"), |$v| { bb($v.$field.round_quarter().is_ok()); }),
            (concat!($prefix, "::round_month"), |$v| { bb($v.$field.round_month().is_ok()); }),
            (concat!($prefix, "::round_week"), |$v| { bb($v.$field.round_week().is_ok()); }),
            (concat!($prefix, "::round_iso_week"), |$v| { bb($v.$field.round_iso_week().is_ok()); }),
            (concat!($prefix, "::round_month_start_week"), |$v| { bb($v.$field.round_month_start_week().is_ok()); }),
            (concat!($prefix, "::round_day"), |$v| { bb($v.$field.round_day().is_ok()); }),
            (concat!($prefix, "::round_sunday_start_week"), |$v| { bb($v.$field.round_sunday_start_week().is_ok()); }),
            (concat!($prefix, "::round_hour"), |$v| { bb($v.$field.round_hour().is_ok()); }),
            (concat!($prefix, "::round_minute"), |$v| { bb($v.$field.round_minute().is_ok()); }),
        ]
    };
}

macro_rules! accessors {
    ($v:ident, $field:ident, $prefix:literal) => {
        [
            (concat!($prefix, "::year"), (|$v: &Vals| { bb(DateTime::year(&$v.$field)); }) as fn(&Vals)),
            (concat!($prefix, "::month"), |$v| { bb(DateTime::month(&$v.$field)); }),
            (concat!($prefix, "::day"), |$v| { bb(DateTime::day(&$v.$field)); }),
            (concat!($prefix, "::hour"), |$v| { bb(DateTime::hour(&$v.$field)); }),
            (concat!($prefix, "::minute"), |$v| { bb(DateTime::minute(&$v.$field)); }),
            (concat!($prefix, "::second"), |$v| { bb(DateTime::second(&$v.$field)); }),
            (concat!($prefix, "::date"), |$v| { bb(DateTime::date(&$v.$field)); }),
        ]
    };
}

pub type FuncEntry = (&'static str, fn(&Vals));

pub fn funcs() -> Vec<FuncEntry> {
    let mut f: Vec<FuncEntry> = vec![
        // ---- Date ----
        ("Date::try_from_ymd", |v| { bb(Date::try_from_ymd(v.y, v.u[0], v.u[1]).is_ok()); }),
        ("Date::is_valid", |v| { bb(Date::is_valid(v.y, v.u[0], v.u[1])); }),
        ("Date::try_from_days", |v| { bb(Date::try_from_days(v.i).is_ok()); }),
        ("Date::days", |v| { bb(v.d.days()); }),
        ("Date::extract", |v| { bb(v.d.extract()); }),
        ("Date::and_hms", |v| { bb(v.d.and_hms(v.u[0], v.u[1], v.u[2], v.u[3]).is_ok()); }),
        ("Date::and_time", |v| { bb(v.d.and_time(v.t)); }),
        ("Date::add_days", |v| { bb(v.d.add_days(v.i).is_ok()); }),
        ("Date::sub_days", |v| { bb(v.d.sub_days(v.i).is_ok()); }),
        ("Date::add_interval_ym", |v| { bb(v.d.add_interval_ym(v.ym).is_ok()); }),
        ("Date::sub_interval_ym", |v| { bb(v.d.sub_interval_ym(v.ym).is_ok()); }),
        ("Date::add_interval_dt", |v| { bb(v.d.add_interval_dt(v.dt).is_ok()); }),
        ("Date::sub_interval_dt", |v| { bb(v.d.sub_interval_dt(v.dt).is_ok()); }),
        ("Date::add_time", |v| { bb(v.d.add_time(v.t)); }),
        ("Date::sub_time", |v| { bb(v.d.sub_time(v.t).is_ok()); }),
        ("Date::sub_date", |v| { bb(v.d.sub_date(v.d2)); }),
        ("Date::sub_timestamp", |v| { bb(v.d.sub_timestamp(v.ts)); }),
        ("Date::day_of_week", |v| { bb(v.d.day_of_week()); }),
        ("Date::last_day_of_month", |v| { bb(v.d.last_day_of_month()); }),
        ("Date::cmp_timestamp", |v| { bb((v.d == v.ts, v.d.partial_cmp(&v.ts), v.ts == v.d, v.ts.partial_cmp(&v.d))); }),
        ("Date::cmp_oracle", |v| { bb((v.d == v.od, v.d.partial_cmp(&v.od), v.od == v.d, v.od.partial_cmp(&v.d))); }),
        ("Date::cmp_hash", |v| {
            use std::hash::{Hash, Hasher};
            let mut h = std::collections::hash_map::DefaultHasher::new();
            v.d.hash(&mut h);
            bb((v.d.cmp(&v.d2), v.d == v.d2, h.finish()));
        }),
        ("Timestamp::from_date", |v| { bb(Timestamp::from(v.d)); }),
        // ---- Timestamp ----
        ("Timestamp::new", |v| { bb(Timestamp::new(v.d, v.t)); }),
        ("Timestamp::extract", |v| { bb(v.ts.extract()); }),
        ("Timestamp::usecs", |v| { bb(v.ts.usecs()); }),
        ("Timestamp::try_from_usecs", |v| { bb(Timestamp::try_from_usecs(((v.i as i64) << 32) | v.u[0] as i64).is_ok()); }),
        ("Timestamp::add_interval_dt", |v| { bb(v.ts.add_interval_dt(v.dt).is_ok()); }),
        ("Timestamp::sub_interval_dt", |v| { bb(v.ts.sub_interval_dt(v.dt).is_ok()); }),
        ("Timestamp::add_interval_ym", |v| { bb(v.ts.add_interval_ym(v.ym).is_ok()); }),
        ("Timestamp::sub_interval_ym", |v| { bb(v.ts.sub_interval_ym(v.ym).is_ok()); }),
        ("Timestamp::add_time", |v| { bb(v.ts.add_time(v.t).is_ok()); }),
        ("Timestamp::sub_time", |v| { bb(v.ts.sub_time(v.t).is_ok()); }),
        ("Timestamp::add_days", |v| { bb(v.ts.add_days(v.f).is_ok()); }),
        ("Timestamp::sub_days", |v| { bb(v.ts.sub_days(v.f).is_ok()); }),
        ("Timestamp::sub_date", |v| { bb(v.ts.sub_date(v.d)); }),
        ("Timestamp::sub_timestamp", |v| { bb(v.ts.sub_timestamp(v.ts2)); }),
        ("Timestamp::last_day_of_month", |v| { bb(v.ts.last_day_of_month()); }),
        ("Timestamp::oracle_sub_date", |v| { bb(v.ts.oracle_sub_date(v.od)); }),
        ("Timestamp::oracle_add_days", |v| { bb(v.ts.oracle_add_days(v.f).is_ok()); }),
        ("Timestamp::oracle_sub_days", |v| { bb(v.ts.oracle_sub_days(v.f).is_ok()); }),
        ("Timestamp::cmp_oracle", |v| { bb((v.ts == v.od, v.ts.partial_cmp(&v.od), v.od == v.ts, v.od.partial_cmp(&v.ts))); }),
        ("Timestamp::cmp", |v| { bb((v.ts.cmp(&v.ts2), v.ts == v.ts2)); }),
        ("Time::from_timestamp", |v| { bb(Time::from(v.ts)); }),
        // ---- Time ----
        ("Time::try_from_hms", |v| { bb(Time::try_from_hms(v.u[0], v.u[1], v.u[2], v.u[3]).is_ok()); }),
        ("Time::is_valid", |v| { bb(Time::is_valid(v.u[0], v.u[1], v.u[2], v.u[3])); }),
        ("Time::try_from_usecs", |v| { bb(Time::try_from_usecs(((v.i as i64) << 32) | v.u[0] as i64).is_ok()); }),
        ("Time::try_from_usecs_small", |v| { bb(Time::try_from_usecs(v.i as i64 * 41).is_ok()); }),
        ("Time::usecs", |v| { bb(v.t.usecs()); }),
        ("Time::extract", |v| { bb(v.t.extract()); }),
        ("Time::sub_time", |v| { bb(v.t.sub_time(v.t2)); }),
        ("Time::add_interval_dt", |v| { bb(v.t.add_interval_dt(v.dt)); }),
        ("Time::sub_interval_dt", |v| { bb(v.t.sub_interval_dt(v.dt)); }),
        ("Time::mul_f64", |v| { bb(v.t.mul_f64(v.f).is_ok()); }),
        ("Time::div_f64", |v| { bb(v.t.div_f64(v.f).is_ok()); }),
        ("Time::from_interval_dt", |v| { bb(Time::from(v.dt)); }),
        ("Time::cmp_interval_dt", |v| { bb((v.t == v.dt, v.t.partial_cmp(&v.dt), v.dt == v.t, v.dt.partial_cmp(&v.t))); }),
        ("Time::from_oracle", |v| { bb(Time::from(v.od)); }),
        // ---- IntervalYM ----
        ("IntervalYM::try_from_ym", |v| { bb(IntervalYM::try_from_ym(v.u[0], v.u[1]).is_ok()); }),
        ("IntervalYM::try_from_ym_big", |v| { bb(IntervalYM::try_from_ym(v.u[0].wrapping_mul(2_796_203), v.u[1]).is_ok()); }),
        ("IntervalYM::is_valid_ym", |v| { bb(IntervalYM::is_valid_ym(v.u[0], v.u[1])); }),
        ("IntervalYM::try_from_months", |v| { bb(IntervalYM::try_from_months(v.i).is_ok()); }),
        ("IntervalYM::months", |v| { bb(v.ym.months()); }),
        ("IntervalYM::extract", |v| { bb(v.ym.extract()); }),
        ("IntervalYM::add_interval_ym", |v| { bb(v.ym.add_interval_ym(v.ym2).is_ok()); }),
        ("IntervalYM::sub_interval_ym", |v| { bb(v.ym.sub_interval_ym(v.ym2).is_ok()); }),
        ("IntervalYM::mul_f64", |v| { bb(v.ym.mul_f64(v.f).is_ok()); }),
        ("IntervalYM::div_f64", |v| { bb(v.ym.div_f64(v.f).is_ok()); }),
        ("IntervalYM::neg", |v| { bb(-v.ym); }),
        // ---- IntervalDT ----
        ("IntervalDT::try_from_dhms", |v| { bb(IntervalDT::try_from_dhms(v.u[0], v.u[1], v.u[2], v.u[3], v.u[4]).is_ok()); }),
        ("IntervalDT::try_from_dhms_big", |v| { bb(IntervalDT::try_from_dhms(v.u[0].wrapping_mul(1_562_500), v.u[1] % 24, v.u[2] % 60, v.u[3] % 60, v.u[4] % 1_000_000).is_ok()); }),
        ("IntervalDT::is_valid", |v| { bb(IntervalDT::is_valid(v.u[0], v.u[1], v.u[2], v.u[3], v.u[4])); }),
        ("IntervalDT::try_from_usecs", |v| { bb(IntervalDT::try_from_usecs(((v.i as i64) << 32) | v.u[0] as i64).is_ok()); }),
        ("IntervalDT::usecs", |v| { bb(v.dt.usecs()); }),
        ("IntervalDT::extract", |v| { bb(v.dt.extract()); }),
        ("IntervalDT::add_interval_dt", |v| { bb(v.dt.add_interval_dt(v.dt2).is_ok()); }),
        ("IntervalDT::sub_interval_dt", |v| { bb(v.dt.sub_interval_dt(v.dt2).is_ok()); }),
        ("IntervalDT::mul_f64", |v| { bb(v.dt.mul_f64(v.f).is_ok()); }),
        ("IntervalDT::div_f64", |v| { bb(v.dt.div_f64(v.f).is_ok()); }),
        ("IntervalDT::sub_time", |v| { bb(v.dt.sub_time(v.t).is_ok()); }),
        ("IntervalDT::from_time", |v| { bb(IntervalDT::from(v.t)); }),
        ("IntervalDT::neg", |v| { bb(-v.dt); }),
        // ---- OracleDate ----
        ("OracleDate::new", |v| { bb(OracleDate::new(v.d, v.t)); }),
        ("OracleDate::usecs", |v| { bb(v.od.usecs()); }),
        ("OracleDate::extract", |v| { bb(v.od.extract()); }),
        ("OracleDate::try_from_usecs", |v| { bb(OracleDate::try_from_usecs(((v.i as i64) << 32) | v.u[0] as i64).is_ok()); }),
        ("OracleDate::try_from_usecs_secs", |v| { bb(OracleDate::try_from_usecs((v.i as i64) * 118_000_000).is_ok()); }),
        ("OracleDate::add_interval_dt", |v| { bb(v.od.add_interval_dt(v.dt).is_ok()); }),
        ("OracleDate::sub_interval_dt", |v| { bb(v.od.sub_interval_dt(v.dt).is_ok()); }),
        ("OracleDate::add_interval_ym", |v| { bb(v.od.add_interval_ym(v.ym).is_ok()); }),
        ("OracleDate::sub_interval_ym", |v| { bb(v.od.sub_interval_ym(v.ym).is_ok()); }),
        ("OracleDate::add_time", |v| { bb(v.od.add_time(v.t).is_ok()); }),
        ("OracleDate::sub_time", |v| { bb(v.od.sub_time(v.t).is_ok()); }),
        ("OracleDate::add_days", |v| { bb(v.od.add_days(v.f).is_ok()); }),
        ("OracleDate::sub_days", |v| { bb(v.od.sub_days(v.f).is_ok()); }),
        ("OracleDate::sub_date", |v| { bb(v.od.sub_date(v.od2)); }),
        ("OracleDate::sub_timestamp", |v| { bb(v.od.sub_timestamp(v.ts)); }),
        ("OracleDate::last_day_of_month", |v| { bb(v.od.last_day_of_month()); }),
        ("OracleDate::from_timestamp", |v| { bb(OracleDate::from(v.ts)); }),
        ("Timestamp::from_oracle", |v| { bb(Timestamp::from(v.od)); }),
        ("OracleDate::cmp", |v| { bb((v.od.cmp(&v.od2), v.od == v.od2)); }),
    ];
    f.extend_from_slice(&trunc_round!(v, d, "Date"));
    f.extend_from_slice(&trunc_round!(v, ts, "Timestamp"));
    f.extend_from_slice(&trunc_round!(v, od, "OracleDate"));
    f.extend_from_slice(&accessors!(v, d, "Date"));
    f.extend_from_slice(&accessors!(v, ts, "Timestamp"));
    f.extend_from_slice(&accessors!(v, t, "Time"));
    f.extend_from_slice(&accessors!(v, ym, "IntervalYM"));
    f.extend_from_slice(&accessors!(v, dt, "IntervalDT"));
    f.extend_from_slice(&accessors!(v, od, "OracleDate"));
    f
}

/// A value produced by one public function and handed on to others.
#[derive(Clone, Copy)]
pub enum Prod {
    D(Date),
    Ts(Timestamp),
    T(Time),
    Ym(IntervalYM),
    Dt(IntervalDT),
    Od(OracleDate),
}

pub type ProducerEntry = (&'static str, fn(&Vals) -> Option<Prod>);

pub fn producers() -> Vec<ProducerEntry> {
    vec![
        ("Date::try_from_ymd", |v| Date::try_from_ymd(v.y, v.u[0], v.u[1]).ok().map(Prod::D)),
        ("Date::try_from_days", |v| Date::try_from_days(v.i).ok().map(Prod::D)),
        ("Date::add_days", |v| v.d.add_days(v.i).ok().map(Prod::D)),
        ("Date::sub_days", |v| v.d.sub_days(v.i).ok().map(Prod::D)),
        ("Date::last_day_of_month", |v| Some(Prod::D(v.d.last_day_of_month()))),
        ("Date::round_month", |v| v.d.round_month().ok().map(Prod::D)),
        ("Date::round_year", |v| v.d.round_year().ok().map(Prod::D)),
        ("Date::round_iso_year", |v| v.d.round_iso_year().ok().map(Prod::D)),
        ("Date::trunc_iso_year", |v| v.d.trunc_iso_year().ok().map(Prod::D)),
        ("Date::round_week", |v| v.d.round_week().ok().map(Prod::D)),
        ("Date::trunc_week", |v| v.d.trunc_week().ok().map(Prod::D)),
        ("Timestamp::extract.date", |v| Some(Prod::D(v.ts.extract().0))),
        ("OracleDate::extract.date", |v| Some(Prod::D(v.od.extract().0))),
        ("Date::and_hms", |v| v.d.and_hms(v.u[0] % 25, v.u[1] % 61, v.u[2] % 61, v.u[3] % 1_000_001).ok().map(Prod::Ts)),
        ("Date::and_time", |v| Some(Prod::Ts(v.d.and_time(v.t)))),
        ("Date::add_interval_ym", |v| v.d.add_interval_ym(v.ym).ok().map(Prod::Ts)),
        ("Date::sub_interval_ym", |v| v.d.sub_interval_ym(v.ym).ok().map(Prod::Ts)),
        ("Date::add_interval_dt", |v| v.d.add_interval_dt(v.dt).ok().map(Prod::Ts)),
        ("Date::sub_interval_dt", |v| v.d.sub_interval_dt(v.dt).ok().map(Prod::Ts)),
        ("Date::sub_time", |v| v.d.sub_time(v.t).ok().map(Prod::Ts)),
        ("Timestamp::new", |v| Some(Prod::Ts(Timestamp::new(v.d, v.t)))),
        ("Timestamp::add_interval_dt", |v| v.ts.add_interval_dt(v.dt).ok().map(Prod::Ts)),
        ("Timestamp::sub_interval_dt", |v| v.ts.sub_interval_dt(v.dt).ok().map(Prod::Ts)),
        ("Timestamp::add_interval_ym", |v| v.ts.add_interval_ym(v.ym).ok().map(Prod::Ts)),
        ("Timestamp::sub_interval_ym", |v| v.ts.sub_interval_ym(v.ym).ok().map(Prod::Ts)),
        ("Timestamp::add_time", |v| v.ts.add_time(v.t).ok().map(Prod::Ts)),
        ("Timestamp::sub_time", |v| v.ts.sub_time(v.t).ok().map(Prod::Ts)),
        ("Timestamp::add_days", |v| v.ts.add_days(v.f).ok().map(Prod::Ts)),
        ("Timestamp::sub_days", |v| v.ts.sub_days(v.f).ok().map(Prod::Ts)),
        ("Timestamp::last_day_of_month", |v| Some(Prod::Ts(v.ts.last_day_of_month()))),
        ("Timestamp::round_day", |v| v.ts.round_day().ok().map(Prod::Ts)),
        ("Timestamp::round_hour", |v| v.ts.round_hour().ok().map(Prod::Ts)),
        ("Timestamp::round_minute", |v| v.ts.round_minute().ok().map(Prod::Ts)),
        ("Timestamp::round_week", |v| v.ts.round_week().ok().map(Prod::Ts)),
        ("Timestamp::round_month", |v| v.ts.round_month().ok().map(Prod::Ts)),
        ("Timestamp::trunc_hour", |v| v.ts.trunc_hour().ok().map(Prod::Ts)),
        ("Timestamp::from_oracle", |v| Some(Prod::Ts(Timestamp::from(v.od)))),
        ("OracleDate::add_time", |v| v.od.add_time(v.t).ok().map(Prod::Ts)),
        ("OracleDate::sub_time", |v| v.od.sub_time(v.t).ok().map(Prod::Ts)),
        ("Time::try_from_hms", |v| Time::try_from_hms(v.u[0] % 25, v.u[1] % 61, v.u[2] % 61, v.u[3] % 1_000_001).ok().map(Prod::T)),
        ("Time::add_interval_dt", |v| Some(Prod::T(v.t.add_interval_dt(v.dt)))),
        ("Time::sub_interval_dt", |v| Some(Prod::T(v.t.sub_interval_dt(v.dt)))),
        ("Time::from_timestamp", |v| Some(Prod::T(Time::from(v.ts)))),
        ("Time::from_interval_dt", |v| Some(Prod::T(Time::from(v.dt)))),
        ("Time::from_oracle", |v| Some(Prod::T(Time::from(v.od)))),
        ("Timestamp::extract.time", |v| Some(Prod::T(v.ts.extract().1))),
        ("IntervalDT::try_from_dhms", |v| IntervalDT::try_from_dhms(v.u[0], v.u[1] % 25, v.u[2] % 61, v.u[3] % 61, v.u[4] % 1_000_001).ok().map(Prod::Dt)),
        ("IntervalDT::add_interval_dt", |v| v.dt.add_interval_dt(v.dt2).ok().map(Prod::Dt)),
        ("IntervalDT::sub_interval_dt", |v| v.dt.sub_interval_dt(v.dt2).ok().map(Prod::Dt)),
        ("IntervalDT::mul_f64", |v| v.dt.mul_f64(v.f).ok().map(Prod::Dt)),
        ("IntervalDT::div_f64", |v| v.dt.div_f64(v.f).ok().map(Prod::Dt)),
        ("IntervalDT::sub_time", |v| v.dt.sub_time(v.t).ok().map(Prod::Dt)),
        ("IntervalDT::neg", |v| Some(Prod::Dt(-v.dt))),
        ("IntervalDT::from_time", |v| Some(Prod::Dt(IntervalDT::from(v.t)))),
        ("Time::sub_time", |v| Some(Prod::Dt(v.t.sub_time(v.t2)))),
        ("Time::mul_f64", |v| v.t.mul_f64(v.f).ok().map(Prod::Dt)),
        ("Time::div_f64", |v| v.t.div_f64(v.f).ok().map(Prod::Dt)),
        ("Timestamp::sub_timestamp", |v| Some(Prod::Dt(v.ts.sub_timestamp(v.ts2)))),
        ("Timestamp::sub_date", |v| Some(Prod::Dt(v.ts.sub_date(v.d)))),
        ("Date::sub_timestamp", |v| Some(Prod::Dt(v.d.sub_timestamp(v.ts)))),
        ("OracleDate::sub_timestamp", |v| Some(Prod::Dt(v.od.sub_timestamp(v.ts)))),
        ("Timestamp::oracle_sub_date", |v| Some(Prod::Dt(v.ts.oracle_sub_date(v.od)))),
        ("IntervalYM::try_from_ym", |v| IntervalYM::try_from_ym(v.u[0], v.u[1] % 13).ok().map(Prod::Ym)),
        ("IntervalYM::add_interval_ym", |v| v.ym.add_interval_ym(v.ym2).ok().map(Prod::Ym)),
        ("IntervalYM::sub_interval_ym", |v| v.ym.sub_interval_ym(v.ym2).ok().map(Prod::Ym)),
        ("IntervalYM::mul_f64", |v| v.ym.mul_f64(v.f).ok().map(Prod::Ym)),
        ("IntervalYM::div_f64", |v| v.ym.div_f64(v.f).ok().map(Prod::Ym)),
        ("IntervalYM::neg", |v| Some(Prod::Ym(-v.ym))),
        ("OracleDate::new", |v| Some(Prod::Od(OracleDate::new(v.d, v.t)))),
        ("OracleDate::add_interval_dt", |v| v.od.add_interval_dt(v.dt).ok().map(Prod::Od)),
        ("OracleDate::sub_interval_dt", |v| v.od.sub_interval_dt(v.dt).ok().map(Prod::Od)),
        ("OracleDate::add_interval_ym", |v| v.od.add_interval_ym(v.ym).ok().map(Prod::Od)),
        ("OracleDate::sub_interval_ym", |v| v.od.sub_interval_ym(v.ym).ok().map(Prod::Od)),
        ("OracleDate::add_days", |v| v.od.add_days(v.f).ok().map(Prod::Od)),
        ("OracleDate::sub_days", |v| v.od.sub_days(v.f).ok().map(Prod::Od)),
        ("OracleDate::last_day_of_month", |v| Some(Prod::Od(v.od.last_day_of_month()))),
        ("OracleDate::from_timestamp", |v| Some(Prod::Od(OracleDate::from(v.ts)))),
        ("OracleDate::round_day", |v| v.od.round_day().ok().map(Prod::Od)),
        ("OracleDate::round_minute", |v| v.od.round_minute().ok().map(Prod::Od)),
        ("Timestamp::oracle_add_days", |v| v.ts.oracle_add_days(v.f).ok().map(Prod::Od)),
        ("Timestamp::oracle_sub_days", |v| v.ts.oracle_sub_days(v.f).ok().map(Prod::Od)),
    ]
}

/// Hands a produced value on: formats it into the sink with `pic` and runs
/// every accessor / truncation / rounding the type has.
fn consume(p: Prod, pic: &str, display: bool, sink: &mut FaultySink) -> &'static str {
    macro_rules! fmt {
        ($val:expr) => {{
            let val = $val;
            if display {
                match val.format(pic) {
                    Ok(d) => match write!(sink, "{}", d) {
                        Ok(()) => "ok",
                        Err(_) => "fmt::Error",
                    },
                    Err(e) => res::<()>(Err(e)),
                }
            } else {
                match Formatter::try_new(pic) {
                    Ok(f) => res(f.format(val, &mut *sink)),
                    Err(e) => res::<()>(Err(e)),
                }
            }
        }};
    }
    macro_rules! acc {
        ($v:expr) => {{
            let v = $v;
            bb((DateTime::year(&v), DateTime::month(&v), DateTime::day(&v), DateTime::hour(&v), DateTime::minute(&v), DateTime::second(&v), DateTime::date(&v)));
        }};
    }
    macro_rules! tr {
        ($v:expr) => {{
            let v = $v;
            bb((v.trunc_century().is_ok(), v.trunc_year().is_ok(), v.trunc_iso_year().is_ok(), v.trunc_quarter().is_ok(), v.trunc_month().is_ok(), v.trunc_week().is_ok(), v.trunc_iso_week().is_ok(), v.trunc_month_start_week().is_ok(), v.trunc_day().is_ok(), v.trunc_sunday_start_week().is_ok(), v.trunc_hour().is_ok(), v.trunc_minute().is_ok()));
            bb((v.round_century().is_ok(), v.round_year().is_ok(), v.round_iso_year().is_ok(), v.round_quarter().is_ok(), v.round_month().is_ok(), v.round_week().is_ok(), v.round_iso_week().is_ok(), v.round_month_start_week().is_ok(), v.round_day().is_ok(), v.round_sunday_start_week().is_ok(), v.round_hour().is_ok(), v.round_minute().is_ok()));
            bb(v.last_day_of_month());
        }};
    }
    match p {
        Prod::D(v) => {
            acc!(v);
            tr!(v);
            bb((v.extract(), v.day_of_week(), v.days()));
            fmt!(v)
        }
        Prod::Ts(v) => {
            acc!(v);
            tr!(v);
            bb((v.extract(), v.usecs(), OracleDate::from(v), Time::from(v)));
            fmt!(v)
        }
        Prod::T(v) => {
            acc!(v);
            bb((v.extract(), v.usecs(), IntervalDT::from(v)));
            fmt!(v)
        }
        Prod::Ym(v) => {
            acc!(v);
            bb((v.extract(), v.months(), -v));
            fmt!(v)
        }
        Prod::Dt(v) => {
            acc!(v);
            bb((v.extract(), v.usecs(), -v, Time::from(v)));
            fmt!(v)
        }
        Prod::Od(v) => {
            acc!(v);
            tr!(v);
            bb((v.extract(), v.usecs(), Timestamp::from(v), Time::from(v)));
            fmt!(v)
        }
    }
}

#[derive(Clone, Debug, PartialEq)]
pub enum Call {
    /// the value returned by one public function is formatted with `pic` and
    /// run through the accessors / trunc / round of its type
    Chain { producer: String, args: Args, pic: String, display: bool },
    TryNew { pic: String },
    Parse { ty: Ty, text: String, pic: String, via_formatter: bool },
    /// `display`: through `write!(sink, <flags>, value.format(pic)?)`; `flags` selects
    /// the format-string flags (width, fill incl. multi-byte fills, alignment, precision)
    Format { ty: Ty, raw: i64, pic: String, display: bool, flags: u8 },
    /// `write!(sink, "{:?}", value)` of a public type
    Debug { ty: Ty, raw: i64, pretty: bool },
    Now { ty: Ty },
    FromTime { ty: Ty, raw: i64 },
    Func { name: String, args: Args },
    /// lazy `Display` values that are held for a while: `value.format(pic)?` is created first,
    /// then the `fillers` (values of type `fty`, each with its own picture) are formatted —
    /// rendered at once, or held as well — and only then is the first value rendered. This is
    /// what `write!(out, "{} {}", a.format(p1)?, b.format(p2)?)` does (both `format` calls are
    /// evaluated before either value is rendered), and what a caller does who keeps the
    /// value around.
    /// `other_thread`: the held value is rendered on another thread than the one that created
    /// it (handed to a logger thread, a task resumed on another worker) — if its type is `Send`.
    Held { ty: Ty, raw: i64, pic: String, fty: Ty, fillers: Vec<(i64, String)>, at_once: bool, other_thread: bool },
    /// the serde impls as public functions: the value with raw count `raw` is serialized by a
    /// human-readable or compact serializer, and one primitive of kind `kind` is handed to the
    /// type's `Deserialize` by a deserializer that never allocates
    Serde { ty: Ty, raw: i64, kind: String, f_bits: u64, text: String, human: bool },
}

pub const HELD_MAX: usize = 40;

/// Carries a lazy value to wherever it is rendered. Which of the two `go` methods applies is
/// decided by the compiler from the value's own type ("autoref specialisation"): on another
/// thread if the type is `Send`, on this thread otherwise — so the harness keeps compiling if
/// a change to the crate makes the value `!Send`.
pub struct Carrier<T>(pub std::cell::Cell<Option<T>>);

pub trait GoElsewhere {
    fn go(&self, sink: &mut FaultySink) -> std::fmt::Result;
}
impl<T: std::fmt::Display + Send> GoElsewhere for Carrier<T> {
    fn go(&self, sink: &mut FaultySink) -> std::fmt::Result {
        let d = match self.0.take() {
            Some(d) => d,
            None => return Ok(()),
        };
        // starting the thread is the harness's own business: not counted, never refused
        let prev = crate::alloc::suspend();
        let r = std::thread::scope(|s| s.spawn(move || write!(sink, "{}", d)).join());
        crate::alloc::resume(prev);
        match r {
            Ok(r) => r,
            Err(payload) => std::panic::resume_unwind(payload),
        }
    }
}
pub trait GoHere {
    fn go(&self, sink: &mut FaultySink) -> std::fmt::Result;
}
impl<T: std::fmt::Display> GoHere for &Carrier<T> {
    fn go(&self, sink: &mut FaultySink) -> std::fmt::Result {
        match self.0.take() {
            Some(d) => write!(sink, "{}", d),
            None => Ok(()),
        }
    }
}

fn held_rest(first: &mut dyn FnMut(&mut FaultySink) -> std::fmt::Result, fty: Ty, fillers: &[(i64, String)], at_once: bool, sink: &mut FaultySink) -> &'static str {
    macro_rules! go {
        ($mk:expr) => {{
            let mut held: [Option<_>; HELD_MAX] = std::array::from_fn(|_| None);
            for (k, (raw, pic)) in fillers.iter().enumerate().take(HELD_MAX) {
                if let Some(v) = $mk(*raw) {
                    match v.format(pic) {
                        Ok(d) => {
                            if at_once {
                                let _ = write!(sink, "{}", d);
                            } else {
                                held[k] = Some(d);
                            }
                        }
                        Err(e) => drop(e),
                    }
                }
            }
            let r = first(sink);
            for h in held.iter().flatten() {
                let _ = write!(sink, " {}", h);
            }
            match r {
                Ok(()) => "ok",
                Err(_) => "fmt::Error",
            }
        }};
    }
    match fty {
        Ty::Date => go!(|r: i64| Date::try_from_days(r as i32).ok()),
        Ty::Timestamp => go!(|r: i64| Timestamp::try_from_usecs(r).ok()),
        Ty::Time => go!(|r: i64| Time::try_from_usecs(r).ok()),
        Ty::IntervalYM => go!(|r: i64| IntervalYM::try_from_months(r as i32).ok()),
        Ty::IntervalDT => go!(|r: i64| IntervalDT::try_from_usecs(r).ok()),
        Ty::Oracle => go!(|r: i64| OracleDate::try_from_usecs(r).ok()),
    }
}

impl Call {
    pub fn func_id(&self) -> String {
        match self {
            Call::Chain { producer, .. } => format!("chain:{}", producer),
            Call::TryNew { .. } => "Formatter::try_new".into(),
            Call::Parse { ty, via_formatter, .. } => {
                if *via_formatter {
                    format!("Formatter::parse<{}>", ty.name())
                } else {
                    format!("{}::parse", ty.name())
                }
            }
            Call::Debug { ty, .. } => format!("Debug<{}>", ty.name()),
            Call::Format { ty, display, .. } => {
                if *display {
                    format!("write!({}::format)", ty.name())
                } else {
                    format!("Formatter::format<{}>", ty.name())
                }
            }
            Call::Now { ty } => format!("{}::now", ty.name()),
            Call::FromTime { ty, .. } => format!("{}::try_from(Time)", ty.name()),
            Call::Func { name, .. } => name.clone(),
            Call::Held { ty, .. } => format!("held({}::format)", ty.name()),
            Call::Serde { ty, human, .. } => format!("serde<{}>({})", ty.name(), if *human { "human-readable" } else { "compact" }),
        }
    }

    pub fn describe(&self) -> String {
        fn clip(s: &str) -> String {
            if s.len() > 90 {
                let head: String = s.chars().take(40).collect();
                format!("{:?}... ({} bytes)", head, s.len())
            } else {
                format!("{:?}", s)
            }
        }
        match self {
            Call::Chain { producer, args, pic, display } => format!(
                "value returned by {} with {} -> accessors, trunc/round, then {}({})",
                producer,
                args.to_json(),
                if *display { "write!(sink, format" } else { "Formatter::format" },
                clip(pic)
            ),
            Call::TryNew { pic } => format!("Formatter::try_new({})", clip(pic)),
            Call::Parse { ty, text, pic, via_formatter } => {
                if *via_formatter {
                    format!("Formatter::try_new({})?.parse::<_, {}>({})", clip(pic), ty.name(), clip(text))
                } else {
                    format!("{}::parse({}, {})", ty.name(), clip(text), clip(pic))
                }
            }
            Call::Debug { ty, raw, pretty } => format!("write!(sink, \"{}\", {}[raw {}])", if *pretty { "{:#?}" } else { "{:?}" }, ty.name(), raw),
            Call::Format { ty, raw, pic, display, flags } => {
                if *display {
                    format!("write!(sink, \"{}\", {}[raw {}].format({})?)", DISPLAY_FLAGS[*flags as usize % DISPLAY_FLAGS.len()], ty.name(), raw, clip(pic))
                } else {
                    format!("Formatter::try_new({})?.format({}[raw {}], sink)", clip(pic), ty.name(), raw)
                }
            }
            Call::Now { ty } => format!("{}::now()", ty.name()),
            Call::FromTime { ty, raw } => format!("{}::try_from(Time[{} us])", ty.name(), raw),
            Call::Func { name, args } => format!("{} with {}", name, args.to_json()),
            Call::Held { ty, raw, pic, fty, fillers, at_once, other_thread } => format!(
                "let held = {}[raw {}].format({})?; then {} values of {} formatted with pictures of their own ({}); then write!(sink, \"{{}}\", held){}",
                ty.name(),
                raw,
                clip(pic),
                fillers.len(),
                fty.name(),
                if *at_once { "each rendered at once" } else { "all held too, rendered after it" },
                if *other_thread { " on another thread" } else { "" }
            ),
            Call::Serde { ty, raw, kind, f_bits, text, human } => format!(
                "{}[raw {}] serialized by a {} serializer, then {}::deserialize given a {} (integer {}, float bits {:016x}, text {}) by a {} format",
                ty.name(),
                raw,
                if *human { "human-readable" } else { "compact" },
                ty.name(),
                kind,
                raw,
                f_bits,
                clip(text),
                if *human { "human-readable" } else { "binary" }
            ),
        }
    }

    pub fn to_json(&self) -> Value {
        match self {
            Call::Chain { producer, args, pic, display } => {
                json!({"call": "chain", "producer": producer, "args": args.to_json(), "picture": pic, "display": display})
            }
            Call::TryNew { pic } => json!({"call": "try_new", "picture": pic}),
            Call::Parse { ty, text, pic, via_formatter } => {
                json!({"call": "parse", "type": ty.name(), "text": text, "picture": pic, "via_formatter": via_formatter})
            }
            Call::Format { ty, raw, pic, display, flags } => {
                json!({"call": "format", "type": ty.name(), "raw": raw, "picture": pic, "display": display, "flags": flags, "format_string": DISPLAY_FLAGS[*flags as usize % DISPLAY_FLAGS.len()]})
            }
            Call::Debug { ty, raw, pretty } => json!({"call": "debug", "type": ty.name(), "raw": raw, "pretty": pretty}),
            Call::Now { ty } => json!({"call": "now", "type": ty.name()}),
            Call::FromTime { ty, raw } => json!({"call": "from_time", "type": ty.name(), "raw": raw}),
            Call::Func { name, args } => json!({"call": "func", "name": name, "args": args.to_json()}),
            Call::Held { ty, raw, pic, fty, fillers, at_once, other_thread } => json!({
                "call": "held", "type": ty.name(), "raw": raw, "picture": pic, "filler_type": fty.name(),
                "fillers": fillers.iter().map(|(r, p)| json!([r, p])).collect::<Vec<_>>(), "fillers_rendered_at_once": at_once,
                "rendered_on_another_thread": other_thread,
            }),
            Call::Serde { ty, raw, kind, f_bits, text, human } => json!({
                "call": "serde", "type": ty.name(), "raw": raw, "kind": kind, "f_bits": format!("{:016x}", f_bits), "text": text, "human_readable": human,
            }),
        }
    }

    pub fn from_json(v: &Value) -> Result<Call, String> {
        let ty = || Ty::from_name(v["type"].as_str().unwrap_or("")).ok_or_else(|| "type".to_string());
        let s = |k: &str| v[k].as_str().map(|x| x.to_string()).ok_or_else(|| k.to_string());
        Ok(match v["call"].as_str().ok_or("call")? {
            "chain" => Call::Chain {
                producer: s("producer")?,
                args: Args::from_json(&v["args"])?,
                pic: s("picture")?,
                display: v["display"].as_bool().unwrap_or(false),
            },
            "try_new" => Call::TryNew { pic: s("picture")? },
            "parse" => Call::Parse {
                ty: ty()?,
                text: s("text")?,
                pic: s("picture")?,
                via_formatter: v["via_formatter"].as_bool().unwrap_or(false),
            },
            "format" => Call::Format {
                ty: ty()?,
                raw: v["raw"].as_i64().ok_or("raw")?,
                pic: s("picture")?,
                display: v["display"].as_bool().unwrap_or(false),
                flags: v["flags"].as_u64().unwrap_or(0) as u8,
            },
            "debug" => Call::Debug { ty: ty()?, raw: v["raw"].as_i64().ok_or("raw")?, pretty: v["pretty"].as_bool().unwrap_or(false) },
            "now" => Call::Now { ty: ty()? },
            "from_time" => Call::FromTime { ty: ty()?, raw: v["raw"].as_i64().ok_or("raw")? },
            "func" => Call::Func { name: s("name")?, args: Args::from_json(&v["args"])? },
            "serde" => Call::Serde {
                ty: ty()?,
                raw: v["raw"].as_i64().ok_or("raw")?,
                kind: s("kind")?,
                f_bits: u64::from_str_radix(v["f_bits"].as_str().unwrap_or("0"), 16).unwrap_or(0),
                text: s("text")?,
                human: v["human_readable"].as_bool().unwrap_or(true),
            },
            "held" => Call::Held {
                ty: ty()?,
                raw: v["raw"].as_i64().ok_or("raw")?,
                pic: s("picture")?,
                fty: Ty::from_name(v["filler_type"].as_str().unwrap_or("")).ok_or("filler_type")?,
                fillers: v["fillers"]
                    .as_array()
                    .ok_or("fillers")?
                    .iter()
                    .filter_map(|x| Some((x[0].as_i64()?, x[1].as_str()?.to_string())))
                    .collect(),
                at_once: v["fillers_rendered_at_once"].as_bool().unwrap_or(true),
                other_thread: v["rendered_on_another_thread"].as_bool().unwrap_or(false),
            },
            o => return Err(format!("unknown call {o}")),
        })
    }
}

/// The format strings used with the lazy Display value (index = `flags`).
pub const DISPLAY_FLAGS: [&str; 14] = [
    "{}", "{:>40}", "{:<5}", "{:^33}", "{:*^30}", "{:.3}", "{:010}", "{:>1}", "{:·>21}", "{:─^40}", "{:\u{a0}<37}",
    "{:…>33}", "{:😀^35.7}", "{:é<64}",
];

macro_rules! write_flags {
    ($sink:expr, $flags:expr, $d:expr) => {
        match $flags % 14 {
            0 => write!($sink, "{}", $d),
            1 => write!($sink, "{:>40}", $d),
            2 => write!($sink, "{:<5}", $d),
            3 => write!($sink, "{:^33}", $d),
            4 => write!($sink, "{:*^30}", $d),
            5 => write!($sink, "{:.3}", $d),
            6 => write!($sink, "{:010}", $d),
            7 => write!($sink, "{:>1}", $d),
            8 => write!($sink, "{:·>21}", $d),
            9 => write!($sink, "{:─^40}", $d),
            10 => write!($sink, "{:\u{a0}<37}", $d),
            11 => write!($sink, "{:…>33}", $d),
            12 => write!($sink, "{:😀^35.7}", $d),
            _ => write!($sink, "{:é<64}", $d),
        }
    };
}

fn err_name(e: &sqldatetime::Error) -> &'static str {
    use sqldatetime::Error::*;
    match e {
        DateOutOfRange => "DateOutOfRange",
        TimeOutOfRange => "TimeOutOfRange",
        IntervalOutOfRange => "IntervalOutOfRange",
        InvalidNumber => "InvalidNumber",
        InvalidMonth => "InvalidMonth",
        InvalidDay => "InvalidDay",
        InvalidMinute => "InvalidMinute",
        InvalidSecond => "InvalidSecond",
        InvalidFraction => "InvalidFraction",
        InvalidDate => "InvalidDate",
        NumericOverflow => "NumericOverflow",
        DivideByZero => "DivideByZero",
        InvalidFormat(_) => "InvalidFormat",
        FormatError(_) => "FormatError",
        ParseError(_) => "ParseError",
        TryReserveError(_) => "TryReserveError",
    }
}

fn res<T>(r: Result<T, sqldatetime::Error>) -> &'static str {
    match r {
        Ok(v) => {
            bb(&v);
            "ok"
        }
        Err(e) => {
            let n = err_name(&e);
            render_error(&e);
            // dropping the error frees its message; fine while armed (dealloc is never refused)
            drop(e);
            n
        }
    }
}

/// A sink of the harness's own for rendering errors: counts, and can refuse from write `fail_at` on.
/// (Not the pass's FaultySink: the fault map of the call under test stays what it was.)
struct ErrSink {
    writes: usize,
    bytes: usize,
    fail_at: usize,
}
impl std::fmt::Write for ErrSink {
    fn write_str(&mut self, s: &str) -> std::fmt::Result {
        if self.writes >= self.fail_at {
            return Err(std::fmt::Error);
        }
        self.writes += 1;
        self.bytes += s.len();
        Ok(())
    }
}

/// The crate's `Error` is a public type and its `Display`, `Debug`, `source` and `==` are safe public
/// functions: every error any pass produces is rendered — into a sink that takes everything, one
/// that refuses the first write and one that refuses the second — and compared with itself.
fn render_error(e: &sqldatetime::Error) {
    for fail_at in [usize::MAX, 0, 1] {
        let mut s = ErrSink { writes: 0, bytes: 0, fail_at };
        let _ = write!(s, "{}", e);
        let _ = write!(s, "{:?}", e);
        let _ = write!(s, "{:#?}", e);
        let _ = write!(s, "{:>8.3}|{:<300}", e, e);
        bb(s.bytes);
    }
    bb(std::error::Error::source(e).is_some());
    bb(e == e);
}

/// Executes the call against the library. Everything the harness itself needs
/// has been allocated before; inside, only the library allocates.
/// Returns an outcome class name ("ok" or the error variant).
/// Both function tables, built once per process (never while the allocator is armed).
pub struct Tables {
    pub funcs: Vec<FuncEntry>,
    pub prods: Vec<ProducerEntry>,
}

impl Tables {
    pub fn new() -> Self {
        Tables { funcs: funcs(), prods: producers() }
    }
}

pub fn execute(call: &Call, tables: &Tables, vals: Option<&Vals>, sink: &mut FaultySink) -> &'static str {
    let funcs = &tables.funcs;
    match call {
        Call::Chain { producer, pic, display, .. } => {
            match (tables.prods.iter().find(|(n, _)| n == producer), vals) {
                (Some((_, f)), Some(v)) => match f(v) {
                    Some(p) => consume(p, pic, *display, sink),
                    None => "no-value",
                },
                _ => "not-a-call",
            }
        }
        Call::TryNew { pic } => match Formatter::try_new(pic) {
            // `Formatter` is `Debug`: printing one (`{:?}`, `dbg!`, a log line) is a public function too
            Ok(f) => {
                let r = write!(sink, "{:?}", f);
                let mut own = ErrSink { writes: 0, bytes: 0, fail_at: usize::MAX };
                let _ = write!(own, "{:#?}", f);
                bb((&f, own.bytes));
                match r {
                    Ok(()) => "ok",
                    Err(_) => "fmt::Error",
                }
            }
            Err(e) => res::<()>(Err(e)),
        },
        Call::Parse { ty, text, pic, via_formatter } => {
            macro_rules! p {
                ($t:ty) => {
                    if *via_formatter {
                        match Formatter::try_new(pic) {
                            Ok(f) => res(f.parse::<_, $t>(text)),
                            Err(e) => res::<()>(Err(e)),
                        }
                    } else {
                        res(<$t>::parse(text, pic))
                    }
                };
            }
            match ty {
                Ty::Date => p!(Date),
                Ty::Timestamp => p!(Timestamp),
                Ty::Time => p!(Time),
                Ty::IntervalYM => p!(IntervalYM),
                Ty::IntervalDT => p!(IntervalDT),
                Ty::Oracle => p!(OracleDate),
            }
        }
        Call::Debug { ty, raw, pretty } => {
            macro_rules! dbg_write {
                ($v:expr) => {{
                    match $v {
                        Ok(v) => {
                            let r = if *pretty { write!(sink, "{:#?}", v) } else { write!(sink, "{:?}", v) };
                            match r {
                                Ok(()) => "ok",
                                Err(_) => "fmt::Error",
                            }
                        }
                        Err(_) => "not-a-value",
                    }
                }};
            }
            match ty {
                Ty::Date => dbg_write!(Date::try_from_days(*raw as i32)),
                Ty::Timestamp => dbg_write!(Timestamp::try_from_usecs(*raw)),
                Ty::Time => dbg_write!(Time::try_from_usecs(*raw)),
                Ty::IntervalYM => dbg_write!(IntervalYM::try_from_months(*raw as i32)),
                Ty::IntervalDT => dbg_write!(IntervalDT::try_from_usecs(*raw)),
                Ty::Oracle => dbg_write!(OracleDate::try_from_usecs(*raw)),
            }
        }
        Call::Format { ty, raw, pic, display, flags } => {
            macro_rules! f {
                ($val:expr) => {{
                    let val = $val;
                    if *display {
                        match val.format(pic) {
                            Ok(d) => match write_flags!(sink, *flags, d) {
                                Ok(()) => "ok",
                                Err(_) => "fmt::Error",
                            },
                            Err(e) => res::<()>(Err(e)),
                        }
                    } else {
                        match Formatter::try_new(pic) {
                            Ok(f) => res(f.format(val, &mut *sink)),
                            Err(e) => res::<()>(Err(e)),
                        }
                    }
                }};
            }
            match ty {
                Ty::Date => match Date::try_from_days(*raw as i32) {
                    Ok(v) => f!(v),
                    Err(_) => "not-a-value",
                },
                Ty::Timestamp => match Timestamp::try_from_usecs(*raw) {
                    Ok(v) => f!(v),
                    Err(_) => "not-a-value",
                },
                Ty::Time => match Time::try_from_usecs(*raw) {
                    Ok(v) => f!(v),
                    Err(_) => "not-a-value",
                },
                Ty::IntervalYM => match IntervalYM::try_from_months(*raw as i32) {
                    Ok(v) => f!(v),
                    Err(_) => "not-a-value",
                },
                Ty::IntervalDT => match IntervalDT::try_from_usecs(*raw) {
                    Ok(v) => f!(v),
                    Err(_) => "not-a-value",
                },
                Ty::Oracle => match OracleDate::try_from_usecs(*raw) {
                    Ok(v) => f!(v),
                    Err(_) => "not-a-value",
                },
            }
        }
        Call::Now { ty } => match ty {
            Ty::Date => res(Date::now()),
            Ty::Timestamp => res(Timestamp::now()),
            Ty::Oracle => res(OracleDate::now()),
            _ => "not-a-call",
        },
        Call::FromTime { ty, raw } => match Time::try_from_usecs(*raw) {
            Ok(t) => match ty {
                Ty::Timestamp => res(Timestamp::try_from(t)),
                Ty::Oracle => res(OracleDate::try_from(t)),
                _ => "not-a-call",
            },
            Err(_) => "not-a-value",
        },
        Call::Held { ty, raw, pic, fty, fillers, at_once, other_thread } => {
            macro_rules! h {
                ($val:expr) => {
                    match $val {
                        Ok(v) => match v.format(pic) {
                            Ok(d) => {
                                let carrier = Carrier(std::cell::Cell::new(Some(d)));
                                let mut render = |sink: &mut FaultySink| -> std::fmt::Result {
                                    if *other_thread {
                                        (&carrier).go(sink)
                                    } else {
                                        match carrier.0.take() {
                                            Some(d) => write!(sink, "{}", d),
                                            None => Ok(()),
                                        }
                                    }
                                };
                                held_rest(&mut render, *fty, fillers, *at_once, sink)
                            }
                            Err(e) => res::<()>(Err(e)),
                        },
                        Err(_) => "not-a-value",
                    }
                };
            }
            match ty {
                Ty::Date => h!(Date::try_from_days(*raw as i32)),
                Ty::Timestamp => h!(Timestamp::try_from_usecs(*raw)),
                Ty::Time => h!(Time::try_from_usecs(*raw)),
                Ty::IntervalYM => h!(IntervalYM::try_from_months(*raw as i32)),
                Ty::IntervalDT => h!(IntervalDT::try_from_usecs(*raw)),
                Ty::Oracle => h!(OracleDate::try_from_usecs(*raw)),
            }
        }
        Call::Serde { ty, raw, kind, f_bits, text, human } => {
            let idx = ALL_TYPES.iter().position(|t| t == ty).unwrap_or(0) as u64;
            crate::firstuse::serde_call(idx, *raw, crate::firstuse::make_prim(kind, *raw, *f_bits, text), *human, sink)
        }
        Call::Func { name, .. } => match (funcs.iter().find(|(n, _)| n == name), vals) {
            (Some((_, f)), Some(v)) => {
                f(v);
                "ok"
            }
            _ => "not-a-call",
        },
    }
}

// ---------------------------------------------------------------------------
// generation
// ---------------------------------------------------------------------------

const TOKENS: [&str; 44] = [
    "YYYY", "YYY", "YY", "Y", "MM", "MON", "MONTH", "DD", "DDD", "D", "DY", "DAY", "HH", "HH12", "HH24", "MI", "SS",
    "FF", "FF1", "FF2", "FF3", "FF4", "FF5", "FF6", "FF7", "FF8", "FF9", "AM", "PM", "A.M.", "P.M.", "W", "WW", "-",
    ":", "/", "\\", ",", ".", ";", "T", " ", "  ", "FF0",
];
const BLANK_RUNS: [usize; 12] = [1, 2, 3, 60, 254, 255, 256, 257, 511, 512, 513, 600];
const COMMON_PICTURES: [&str; 22] = [
    "YYYY-MM-DD",
    "YYYY-MM-DD HH24:MI:SS",
    "YYYY-MM-DD HH24:MI:SS.FF6",
    "YYYY-MM-DD HH24:MI:SS.FF",
    "DD-MON-YY",
    "DD-MON-YYYY HH:MI:SS AM",
    "MONTH DD, YYYY",
    "DAY, DD MONTH YYYY",
    "DY MON DD HH24:MI:SS YYYY",
    "YYYY/MM/DD",
    "YYYYMMDD",
    "YYYYMMDDHH24MISS",
    "HH24:MI:SS.FF6",
    "HH:MI:SS.FF3 P.M.",
    "YYYY-MM",
    "DD HH24:MI:SS.FF6",
    "YYYY-DDD",
    "YY-MM-DD",
    "D",
    "WW W D DDD",
    "YYYY-MM-DD\"T\"HH24:MI:SS",
    "yyyy-mm-ddThh24:mi:ss.ff9",
];
const JUNK: [&str; 32] = [
    "ı", "İ", "ſ", "ﬆ", "\u{212a}", "ǰ", "\0", "é", "日", "😀", "0", "9", "1", "+", "-", "!", "\"", "#", "'", "(", "*", "[", "_", "~", "\t", "\n", "x", "Z", "\u{7f}",
    "\u{80}", "ß", "\u{feff}",
];

fn rand_case(rng: &mut Rng, s: &str) -> String {
    match rng.below(4) {
        0 => s.to_string(),
        1 => s.to_ascii_lowercase(),
        2 => {
            let mut c = s.chars();
            match c.next() {
                Some(f) => f.to_ascii_uppercase().to_string() + &c.as_str().to_ascii_lowercase(),
                None => String::new(),
            }
        }
        _ => s.chars().map(|c| if rng.bool() { c.to_ascii_lowercase() } else { c.to_ascii_uppercase() }).collect(),
    }
}

fn mutate(rng: &mut Rng, s: &str, n: usize) -> String {
    let mut chars: Vec<String> = s.chars().map(|c| c.to_string()).collect();
    for _ in 0..n {
        let pos = rng.usize_below(chars.len() + 1);
        match rng.below(4) {
            0 if !chars.is_empty() => {
                chars.remove(pos.min(chars.len() - 1));
            }
            1 if !chars.is_empty() => {
                let p = pos.min(chars.len() - 1);
                chars[p] = rng.pick(&JUNK).to_string();
            }
            2 if !chars.is_empty() => {
                // duplicate a stretch (over-long digit runs, repeated fields)
                let p = pos.min(chars.len() - 1);
                let c = chars[p].clone();
                let k = *rng.pick(&[1usize, 2, 9, 10, 11, 40]);
                for _ in 0..k {
                    chars.insert(p, c.clone());
                }
            }
            _ => chars.insert(pos.min(chars.len()), rng.pick(&JUNK).to_string()),
        }
    }
    chars.concat()
}

pub fn gen_picture(rng: &mut Rng) -> String {
    match rng.below(20) {
        0..=7 => grammar_picture(rng),
        8..=11 => {
            let p = grammar_picture(rng);
            let n = 1 + rng.usize_below(3);
            mutate(rng, &p, n)
        }
        12..=14 => rng.pick(&COMMON_PICTURES).to_string(),
        15 => {
            let p = rng.pick(&COMMON_PICTURES).to_string();
            mutate(rng, &p, 1)
        }
        16 => {
            // raw random
            let n = rng.usize_below(48);
            (0..n)
                .map(|_| {
                    if rng.chance(1, 6) {
                        rng.pick(&JUNK).to_string()
                    } else {
                        ((0x20 + rng.below(0x5f) as u8) as char).to_string()
                    }
                })
                .collect()
        }
        17 => {
            if rng.chance(1, 8) {
                // a very long picture
                " ".repeat(*rng.pick(&[9_000usize, 40_000, 250_000]))
            } else {
                " ".repeat(*rng.pick(&BLANK_RUNS))
            }
        }
        18 => {
            // exactly 35..38 tokens: the internal field buffer holds 36
            let n = 35 + rng.usize_below(4);
            let mut s = String::new();
            for i in 0..n {
                s.push_str(if i % 2 == 0 { *rng.pick(&["DD", "MI", "SS", "MM", "YY"]) } else { *rng.pick(&["-", ":", "/", "."]) });
            }
            s
        }
        _ => {
            // one or two tokens
            let t: &str = *rng.pick(&TOKENS[..]);
            let mut s = rand_case(rng, t);
            if rng.bool() {
                let t2: &str = *rng.pick(&TOKENS[..]);
                s.push_str(&rand_case(rng, t2));
            }
            s
        }
    }
}

fn grammar_picture(rng: &mut Rng) -> String {
    let cap = if rng.chance(1, 8) { 41 } else { 12 };
    let n = rng.usize_below(cap);
    let mut s = String::new();
    for _ in 0..n {
        let t = *rng.pick(&TOKENS);
        if t == " " && rng.chance(1, 6) {
            s.push_str(&" ".repeat(*rng.pick(&BLANK_RUNS)));
        } else if t == "T" {
            s.push('T');
        } else {
            s.push_str(&rand_case(rng, t));
        }
    }
    s
}

const SMALL_ALPHABET: [&str; 24] = [
    "-", "+", "/", ":", ".", ",", ";", " ", "0", "1", "7", "9", "A", "P", "M", "a", "p", "m", "T", "é", "!", "\0", "S", "J",
];

/// The library's own rendering of a pool value with this picture, if any.
fn rendered(ty: Ty, raw: i64, pic: &str) -> Option<String> {
    // pictures with very long blank runs are left to the call itself (the
    // generator must not trip over what it is about to test)
    if pic.len() > 200 {
        return None;
    }
    let mut s = String::new();
    let ok = std::panic::catch_unwind(std::panic::AssertUnwindSafe(|| {
        let f = Formatter::try_new(pic).ok()?;
        match ty {
        Ty::Date => Date::try_from_days(raw as i32).ok().and_then(|v| f.format(v, &mut s).ok()),
        Ty::Timestamp => Timestamp::try_from_usecs(raw).ok().and_then(|v| f.format(v, &mut s).ok()),
        Ty::Time => Time::try_from_usecs(raw).ok().and_then(|v| f.format(v, &mut s).ok()),
        Ty::IntervalYM => IntervalYM::try_from_months(raw as i32).ok().and_then(|v| f.format(v, &mut s).ok()),
        Ty::IntervalDT => IntervalDT::try_from_usecs(raw).ok().and_then(|v| f.format(v, &mut s).ok()),
        Ty::Oracle => OracleDate::try_from_usecs(raw).ok().and_then(|v| f.format(v, &mut s).ok()),
        }
    }));
    match ok {
        Ok(Some(())) => Some(s),
        _ => None,
    }
}

/// A text built field by field along the picture (own, simple tokenizer),
/// each numeric field filled with a boundary number of its kind: year 1900 with
/// day of year 366, month 13, day 31 in a 30-day month, hour 24, 9-digit numbers,
/// signs, names ... Hostile but plausible.
pub fn structured_text(rng: &mut Rng, pic: &str) -> String {
    let up = pic.to_ascii_uppercase();
    let b = up.as_bytes();
    let mut out = String::new();
    let mut i = 0;
    let num = |rng: &mut Rng, pool: &[&str]| -> String {
        let mut s = String::new();
        match rng.below(12) {
            0 => s.push('-'),
            1 => s.push('+'),
            _ => {}
        }
        if rng.chance(1, 10) {
            s.push_str("0000000");
        }
        let chosen: &str = pool[rng.usize_below(pool.len())];
        s.push_str(chosen);
        s
    };
    while i < b.len() {
        let rest = &up[i..];
        let (len, piece): (usize, String) = if rest.starts_with("YYYY") {
            (4, num(rng, &["1", "4", "100", "400", "1582", "1700", "1900", "2000", "2024", "2100", "9996", "9999", "0", "10000", "0001"]))
        } else if rest.starts_with("YYY") {
            (3, num(rng, &["0", "1", "99", "100", "900", "999", "1000"]))
        } else if rest.starts_with("YY") {
            (2, num(rng, &["0", "00", "1", "24", "99", "100", "1900", "2100"]))
        } else if rest.starts_with('Y') {
            (1, num(rng, &["0", "4", "9", "10"]))
        } else if rest.starts_with("MONTH") {
            (5, (*rng.pick(&["February", "FEBRUARY", "feb", "December", "may", "Sept", "Marchx", "J"])).to_string())
        } else if rest.starts_with("MON") {
            (3, (*rng.pick(&["Feb", "DEC", "jan", "February", "Ma", "Jun", "xyz"])).to_string())
        } else if rest.starts_with("MM") {
            (2, num(rng, &["0", "1", "2", "02", "11", "12", "13", "99", "Feb"]))
        } else if rest.starts_with("MI") {
            (2, num(rng, &["0", "00", "59", "60", "99"]))
        } else if rest.starts_with("DDD") {
            (3, num(rng, &["0", "1", "59", "60", "61", "365", "366", "367", "999", "060", "001"]))
        } else if rest.starts_with("DD") {
            (2, num(rng, &["0", "1", "28", "29", "30", "31", "32", "99", "999999999", "100000000", "99999999"]))
        } else if rest.starts_with("DAY") {
            (3, (*rng.pick(&["Monday", "SUNDAY", "saturday", "Sun", "Thursda", "x"])).to_string())
        } else if rest.starts_with("DY") {
            (2, (*rng.pick(&["Mon", "SUN", "sat", "Sunday", "Th", "x"])).to_string())
        } else if rest.starts_with('D') {
            (1, (*rng.pick(&["0", "1", "7", "8", "9", "-", "/", "+", " "])).to_string())
        } else if rest.starts_with("HH24") {
            (4, num(rng, &["0", "00", "12", "23", "24", "99"]))
        } else if rest.starts_with("HH12") {
            (4, num(rng, &["0", "1", "12", "13", "00"]))
        } else if rest.starts_with("HH") {
            (2, num(rng, &["0", "1", "12", "13", "00"]))
        } else if rest.starts_with("SS") {
            (2, num(rng, &["0", "00", "59", "60", "99"]))
        } else if rest.starts_with("FF") {
            let l = if rest.len() > 2 && rest.as_bytes()[2].is_ascii_digit() { 3 } else { 2 };
            (l, (*rng.pick(&["0", "5", "999999", "9999995", "999999999", "9999999999", "000001", "-1", ""])).to_string())
        } else if rest.starts_with("A.M.") || rest.starts_with("P.M.") {
            (4, (*rng.pick(&["A.M.", "p.m.", "AM", "a.m", "P.M"])).to_string())
        } else if rest.starts_with("AM") || rest.starts_with("PM") {
            (2, (*rng.pick(&["AM", "pm", "A.M.", "a", "Pm"])).to_string())
        } else if rest.starts_with("WW") {
            (2, (*rng.pick(&["1", "53", "54"])).to_string())
        } else {
            let ch = pic[i..].chars().next().unwrap_or(' ');
            (ch.len_utf8(), if rng.chance(1, 12) { String::new() } else { ch.to_string() })
        };
        out.push_str(&piece);
        if rng.chance(1, 15) {
            out.push(' ');
        }
        i += len.max(1);
    }
    out
}

/// Characters whose upper- or lower-case mapping is an ASCII letter or letter pair
/// (dotless and dotted i of Turkish text, long s, the st / ff / fi ligatures of text copied
/// from a PDF, the Kelvin sign, sharp s): a name written with one of them compares equal to
/// the plain name after a Unicode case conversion, but has another byte length.
const CONFUSABLES: [(&str, &str); 14] = [
    ("i", "ı"), ("I", "İ"), ("i", "İ"), ("s", "ſ"), ("S", "ſ"), ("st", "ﬆ"), ("ST", "ﬆ"), ("st", "ﬅ"), ("k", "\u{212a}"), ("K", "\u{212a}"),
    ("ff", "ﬀ"), ("fi", "ﬁ"), ("ss", "ß"), ("a", "ª"),
];

/// Replaces one or two letter groups of `s` by such a character.
fn confuse(rng: &mut Rng, s: &str) -> String {
    let mut out = s.to_string();
    for _ in 0..1 + rng.usize_below(2) {
        let (plain, odd) = *rng.pick(&CONFUSABLES);
        let hits: Vec<usize> = out.match_indices(plain).map(|(i, _)| i).collect();
        if hits.is_empty() {
            // case-insensitive second try
            let lower = out.to_ascii_lowercase();
            let hits: Vec<usize> = lower.match_indices(&plain.to_ascii_lowercase()).map(|(i, _)| i).collect();
            if let Some(&i) = hits.get(rng.usize_below(hits.len().max(1))) {
                if out.is_char_boundary(i) && out.is_char_boundary(i + plain.len()) {
                    out.replace_range(i..i + plain.len(), odd);
                }
            }
            continue;
        }
        let i = hits[rng.usize_below(hits.len())];
        out.replace_range(i..i + plain.len(), odd);
    }
    out
}

pub fn gen_text(rng: &mut Rng, ty: Ty, pic: &str) -> String {
    let t = gen_text_plain(rng, ty, pic);
    if rng.chance(1, 12) && t.len() < 300 && t.bytes().any(|b| b.is_ascii_alphabetic()) {
        return confuse(rng, &t);
    }
    t
}

fn gen_text_plain(rng: &mut Rng, ty: Ty, pic: &str) -> String {
    if rng.chance(1, 4) && pic.len() < 300 && pic.is_ascii() {
        return structured_text(rng, pic);
    }
    match rng.below(20) {
        0..=9 => {
            let raw = draw_value(rng, ty);
            match rendered(ty, raw, pic) {
                Some(s) => {
                    if rng.chance(2, 5) {
                        s
                    } else {
                        let n = 1 + rng.usize_below(3);
                        mutate(rng, &s, n)
                    }
                }
                None => small_text(rng),
            }
        }
        10..=14 => small_text(rng),
        15 => String::new(),
        16 if rng.chance(1, 2) => {
            // a text that starts like a valid one and goes on in another script for a few hundred
            // bytes: whatever echoes, clips or scans the input by byte position (in the parser, in an
            // error message, in the error's own Display) meets a multi-byte character at every offset
            let head: Vec<char> = rendered(ty, draw_value(rng, ty), pic).unwrap_or_default().chars().collect();
            let cut = rng.usize_below(head.len() + 1);
            let mut t: String = head[..cut].iter().collect();
            t.push_str(&"x".repeat(rng.usize_below(4)));
            let unit = *rng.pick(&["é", "ß", "日", "😀"]);
            let reps = *rng.pick(&[20usize, 40, 64, 100, 128, 130, 200, 256, 300, 600]) + rng.usize_below(3);
            t.push_str(&unit.repeat(reps));
            t
        }
        16 => {
            let unit = *rng.pick(&["9", " ", "-", "0", "é", "1:", "A", "+"]);
            // "very long": up to a quarter of a million bytes (anything whose stack or buffer use grows
            // with the input shows at that size, also on the 8 MiB stack of a main thread)
            unit.repeat(*rng.pick(&[10usize, 255, 256, 1000, 5000, 30_000, 250_000]))
        }
        _ => {
            let n = rng.usize_below(40);
            (0..n)
                .map(|_| {
                    if rng.chance(1, 8) {
                        rng.pick(&JUNK).to_string()
                    } else {
                        ((0x20 + rng.below(0x5f) as u8) as char).to_string()
                    }
                })
                .collect()
        }
    }
}

fn small_text(rng: &mut Rng) -> String {
    let n = rng.usize_below(6);
    (0..n).map(|_| rng.pick(&SMALL_ALPHABET).to_string()).collect()
}

// ---------------------------------------------------------------------------
// A small fixed grid on top of the seeded calls: every function that scales or shifts by
// an f64 (`*_f64`, `*_days`) with whole days / months / hours 1..120 of either sign and the
// factors people write — 0.01 .. 3.00 in hundredths and 1/1 .. 1/60. Products that land
// just below a whole number are where rounding code goes wrong, and random f64 draws do
// not find them. Grid calls have call indices GRID_BASE.. and are otherwise ordinary calls.
// ---------------------------------------------------------------------------

pub const GRID_BASE: u64 = 1 << 40;
const GRID_DAYS: u64 = 120;
const GRID_FACTORS: u64 = 360;

fn grid_funcs(tables: &Tables) -> Vec<&'static str> {
    tables.funcs.iter().map(|(n, _)| *n).filter(|n| n.contains("f64") || n.contains("days")).collect()
}

pub fn grid_len(tables: &Tables) -> u64 {
    scaling_grid_len(tables) + applicability_grid_len()
}

fn scaling_grid_len(tables: &Tables) -> u64 {
    grid_funcs(tables).len() as u64 * GRID_DAYS * GRID_FACTORS * 2
}

// ---------------------------------------------------------------------------
// Applicability: the last clause of the property — "formatting into a text sink reports an
// inapplicable field as an error instead of panicking". A picture element is inapplicable to a
// type when the type does not carry that component at all: a DATE has no time of day, a TIME
// no calendar date, a year-month interval nothing below the month, a day-time interval nothing
// above the day, and the Oracle-style date no fractional seconds. (Left open on purpose, and
// demanded by nothing here: 12-hour and meridian elements on a day-time interval, month names
// on a year-month interval.) The oracle speaks only about pictures of a strict shape — known
// elements separated by single punctuation characters — which need no knowledge of the
// library's lexer to be read.
// ---------------------------------------------------------------------------

/// (element, types that carry it) — D Date, S Timestamp, T Time, Y IntervalYM, I IntervalDT, O OracleDate;
/// lower case: left open (no demand either way).
const ELEMENTS: [(&str, &str); 31] = [
    ("YYYY", "DSYO"), ("YYY", "DSYO"), ("YY", "DSYO"), ("Y", "DSYO"), ("MM", "DSYO"), ("DD", "DSIO"),
    ("HH24", "STIO"), ("MI", "STIO"), ("SS", "STIO"),
    ("HH", "STOi"), ("HH12", "STOi"), ("AM", "STOi"), ("PM", "STOi"),
    ("FF", "STI"), ("FF1", "STI"), ("FF2", "STI"), ("FF3", "STI"), ("FF4", "STI"), ("FF5", "STI"), ("FF6", "STI"),
    ("FF7", "STI"), ("FF8", "STI"), ("FF9", "STI"),
    ("MON", "DSOy"), ("MONTH", "DSOy"), ("DY", "DSO"), ("DAY", "DSO"), ("D", "DSO"), ("DDD", "DSO"), ("W", "DSO"), ("WW", "DSO"),
];
const STRICT_SEPARATORS: &[u8] = b"-:/,.; ";

fn ty_letter(ty: Ty) -> char {
    match ty {
        Ty::Date => 'D',
        Ty::Timestamp => 'S',
        Ty::Time => 'T',
        Ty::IntervalYM => 'Y',
        Ty::IntervalDT => 'I',
        Ty::Oracle => 'O',
    }
}

/// The first element of a strictly shaped picture that the type does not carry; `None` if the
/// picture is not of the strict shape, or every element applies or is left open.
pub fn inapplicable_in(ty: Ty, pic: &str) -> Option<&'static str> {
    if pic.is_empty() || pic.len() > 120 || !pic.is_ascii() {
        return None;
    }
    let up = pic.to_ascii_uppercase();
    let mut found = None;
    for piece in up.as_bytes().split(|b| STRICT_SEPARATORS.contains(b)) {
        let (name, carriers) = ELEMENTS.iter().find(|(n, _)| n.as_bytes() == piece)?;
        let l = ty_letter(ty);
        if found.is_none() && !carriers.contains(l) && !carriers.contains(l.to_ascii_lowercase()) {
            found = Some(*name);
        }
    }
    found
}

/// For a call that renders a valid value with a strictly shaped picture: the element that must
/// make it fail.
pub fn must_be_refused(call: &Call) -> Option<&'static str> {
    match call {
        Call::Format { ty, pic, .. } => inapplicable_in(*ty, pic),
        _ => None,
    }
}

const APPL_CONTEXTS: u64 = 3;

fn applicability_grid_len() -> u64 {
    6 * ELEMENTS.len() as u64 * APPL_CONTEXTS * 2 * 2 * 2
}

fn applicability_call(j: u64) -> Call {
    let ty = ALL_TYPES[(j % 6) as usize];
    let j = j / 6;
    let (el, _) = ELEMENTS[(j % ELEMENTS.len() as u64) as usize];
    let j = j / ELEMENTS.len() as u64;
    let ctx = j % APPL_CONTEXTS;
    let j = j / APPL_CONTEXTS;
    let display = j % 2 == 1;
    let lower = (j / 2) % 2 == 1;
    let second = (j / 4) % 2 == 1;
    // an element the type carries, to stand before or after the one under test
    let own = match ty {
        Ty::Date | Ty::Timestamp | Ty::Oracle => "DD",
        Ty::Time | Ty::IntervalDT => "MI",
        Ty::IntervalYM => "MM",
    };
    let pic = match ctx {
        0 => el.to_string(),
        1 => format!("{} {}", own, el),
        _ => format!("{}-{}", el, own),
    };
    let pic = if lower { pic.to_ascii_lowercase() } else { pic };
    let raw = match (ty, second) {
        (Ty::Date, false) => simcore::civil::days_from_civil(2024, 2, 29),
        (Ty::Date, true) => simcore::civil::days_from_civil(1, 1, 1),
        (Ty::Timestamp, false) | (Ty::Oracle, false) => simcore::civil::days_from_civil(2024, 2, 29) * 86_400_000_000 + 47_096_000_000,
        (Ty::Timestamp, true) | (Ty::Oracle, true) => simcore::civil::days_from_civil(9999, 12, 31) * 86_400_000_000,
        (Ty::Time, false) => 47_096_123_456,
        (Ty::Time, true) => 0,
        (Ty::IntervalYM, false) => 14,
        (Ty::IntervalYM, true) => -24,
        (Ty::IntervalDT, false) => 3 * 86_400_000_000 + 47_096_123_456,
        (Ty::IntervalDT, true) => -86_400_000_000,
    };
    Call::Format { ty, raw, pic, display, flags: 0 }
}

pub fn grid_call(tables: &Tables, j: u64) -> Call {
    const DAY: i64 = 86_400_000_000;
    if j >= scaling_grid_len(tables) {
        return applicability_call(j - scaling_grid_len(tables));
    }
    let fs = grid_funcs(tables);
    let per = GRID_DAYS * GRID_FACTORS * 2;
    let name = fs[(j / per) as usize % fs.len().max(1)];
    let r = j % per;
    let sign: i64 = if r % 2 == 0 { 1 } else { -1 };
    let r = r / 2;
    let d = 1 + (r % GRID_DAYS) as i64;
    let k = 1 + r / GRID_DAYS;
    let f = if k <= 300 { k as f64 / 100.0 } else { 1.0 / (k - 300) as f64 };
    let day0 = simcore::civil::days_from_civil(2024, 1, 1) + d * 3;
    let tod = (d % 24) * 3_600_000_000;
    let args = Args {
        raws: [
            [day0, day0 + 1],
            [day0 * DAY + tod, day0 * DAY],
            [tod, 0],
            [sign * d, 12],
            [sign * d * DAY, DAY],
            [day0 * DAY + tod, day0 * DAY],
        ],
        i: d as i32,
        f_bits: f.to_bits(),
        u: [1, 1, 1, 1, 1],
        y: 2024,
    };
    Call::Func { name: name.to_string(), args }
}

/// The call with index `idx`: seeded below GRID_BASE, a grid call from there on.
pub fn call_for_index(seed: u64, idx: u64, tables: &Tables, rng: &mut Rng) -> Call {
    let _ = seed;
    if idx >= GRID_BASE {
        grid_call(tables, idx - GRID_BASE)
    } else {
        gen_call(rng, tables)
    }
}

/// The index a worker (`index` of `of`) visits after `idx`: its slice of 0..n_calls, then its
/// slice of the grid.
pub fn next_index(idx: u64, of: u64, index: u64, n_calls: u64) -> u64 {
    let n = idx + of;
    if n >= n_calls && n < GRID_BASE {
        let mut j = GRID_BASE;
        while j % of != index % of {
            j += 1;
        }
        j
    } else {
        n
    }
}

pub fn gen_call(rng: &mut Rng, tables: &Tables) -> Call {
    let funcs = &tables.funcs;
    match rng.below(100) {
        0..=7 => Call::TryNew { pic: gen_picture(rng) },
        8..=44 => {
            let ty = *rng.pick(&ALL_TYPES);
            let pic = gen_picture(rng);
            let text = gen_text(rng, ty, &pic);
            Call::Parse { ty, text, pic, via_formatter: rng.chance(1, 4) }
        }
        45..=74 => {
            let ty = *rng.pick(&ALL_TYPES);
            if rng.chance(1, 20) {
                return Call::Debug { ty, raw: draw_value(rng, ty), pretty: rng.bool() };
            }
            let display = rng.chance(1, 3);
            let flags = if display && rng.chance(1, 2) { rng.below(DISPLAY_FLAGS.len() as u64) as u8 } else { 0 };
            Call::Format { ty, raw: draw_value(rng, ty), pic: gen_picture(rng), display, flags }
        }
        75..=77 => {
            if rng.chance(1, 2) {
                // held lazy values: usually pictures that apply to the type, so that something is rendered
                let ty = *rng.pick(&ALL_TYPES);
                let fty = *rng.pick(&ALL_TYPES);
                let n = *rng.pick(&[1usize, 1, 2, 3, 8, 15, 16, 17, 31, 32, 33, 34, HELD_MAX]);
                let pic_for = |rng: &mut Rng, t: Ty, k: usize| -> String {
                    if rng.chance(1, 4) {
                        return gen_picture(rng);
                    }
                    // distinct pictures: a common shape for the type plus k blanks
                    let base = match t {
                        Ty::Date => *rng.pick(&["YYYY-MM-DD", "DD MON YYYY", "DAY", "YYYY DDD", "MONTH DD, YYYY"]),
                        Ty::Timestamp | Ty::Oracle => *rng.pick(&["YYYY-MM-DD HH24:MI:SS", "DD-MON-YY HH:MI AM", "YYYY-MM-DD", "HH24:MI"]),
                        Ty::Time => *rng.pick(&["HH24:MI:SS.FF6", "HH:MI AM", "HH24", "MI:SS"]),
                        Ty::IntervalYM => *rng.pick(&["YYYY-MM", "YY MM", "MM"]),
                        Ty::IntervalDT => *rng.pick(&["DD HH24:MI:SS.FF6", "DD", "HH24:MI:SS"]),
                    };
                    format!("{}{}", base, " ".repeat(k))
                };
                let pic = pic_for(rng, ty, 0);
                let fillers = (0..n).map(|k| (draw_value(rng, fty), pic_for(rng, fty, k + 1))).collect();
                return Call::Held { ty, raw: draw_value(rng, ty), pic, fty, fillers, at_once: rng.bool(), other_thread: rng.chance(1, 10) };
            }
            Call::Now { ty: *rng.pick(&[Ty::Date, Ty::Timestamp, Ty::Oracle]) }
        }
        81..=88 => {
            let (name, _) = rng.pick(&tables.prods);
            Call::Chain { producer: name.to_string(), args: Args::draw(rng), pic: gen_picture(rng), display: rng.chance(1, 3) }
        }
        78 => {
            // the serde impls: any primitive a data format may hand over
            let ty = *rng.pick(&ALL_TYPES);
            let kind = if rng.chance(1, 2) { "str" } else { *rng.pick(&crate::firstuse::PRIM_KINDS) }.to_string();
            let raw = match rng.below(4) {
                0 => draw_value(rng, ty),
                1 => *rng.pick(&[i64::MAX, i64::MIN, i64::MAX / 2, i64::MAX / 1000, i64::MIN / 1000, 1_700_000_000_000_000_000, u32::MAX as i64, i32::MIN as i64, -1, 0, 1]),
                2 => (ty.hi() as i128 + *rng.pick(&[-1i128, 0, 1, 1000, 1_000_000])).clamp(i64::MIN as i128, i64::MAX as i128) as i64,
                _ => rng.next_u64() as i64,
            };
            let text = match rng.below(3) {
                0 => {
                    let idx = ALL_TYPES.iter().position(|t| *t == ty).unwrap_or(0);
                    let t = crate::firstuse::TEXTS[idx];
                    if rng.bool() {
                        t.to_string()
                    } else {
                        let n = 1 + rng.usize_below(2);
                        mutate(rng, t, n)
                    }
                }
                1 => gen_text(rng, ty, "YYYY-MM-DD HH24:MI:SS.FF6"),
                _ => small_text(rng),
            };
            Call::Serde { ty, raw, kind, f_bits: draw_f64(rng).to_bits(), text, human: rng.chance(2, 3) }
        }
        79..=80 => Call::FromTime { ty: *rng.pick(&[Ty::Timestamp, Ty::Oracle]), raw: draw_value(rng, Ty::Time) },
        _ => {
            let (name, _) = rng.pick(funcs);
            Call::Func { name: name.to_string(), args: Args::draw(rng) }
        }
    }
}
