//! C03 — no safe public call panics, whatever its arguments. Deterministic
//! simulation with fault enumeration at every seam a call touches: the text
//! sink, the allocator, the clock, in two build configurations, with process
//! isolation so that an abort is observed rather than fatal.
//!
//! coordinator: c03 --tier quick|thorough [--calls N]
//!              c03 --replay FILE
//! worker:      c03 --worker --build NAME --seed S --calls N --index K --of W [--trace]
//!              c03 --exec-one FILE

mod alloc;
mod calls;
mod firstuse;
mod sink;

use calls::{Call, Tables};
use serde_json::{json, Value};
use simcore::rng::{tag, Rng};
use simcore::{EXIT_HARNESS, EXIT_OK, EXIT_VIOLATION};
use sink::FaultySink;
use std::cell::{Cell, RefCell};
use std::collections::{BTreeMap, BTreeSet};
use std::io::Write as _;

#[global_allocator]
static GLOBAL: alloc::FailingAlloc = alloc::FailingAlloc;

const PROPERTY: &str = "C03";

// ---------------------------------------------------------------------------
// clock seam (a small fixed set of readings; C18 owns the real clock search)
// ---------------------------------------------------------------------------

#[derive(Clone, Copy, Debug, PartialEq, Eq)]
enum ClockMode {
    /// 2024-02-29 12:00:00 UTC, frozen
    Normal,
    /// one of the extreme readings
    Extreme(usize),
    /// starts at 1999-12-31 23:59:59.999999999 and jumps a day and a second per reading
    Ticking,
}

const EXTREME_CLOCKS: [(i64, u32, i32, &str); 15] = [
    // chrono's own limits (offset 0, so that chrono's local-time arithmetic itself stays in range)
    (8_210_266_876_799, 999_999_999, 0, "chrono DateTime::MAX_UTC (+262142-12-31 23:59:59.999999999)"),
    (8_210_266_876_799, 1_999_999_999, 0, "chrono maximum instant in leap-second representation"),
    (-8_334_601_228_800, 0, 0, "chrono DateTime::MIN_UTC (-262143-01-01 00:00:00)"),
    (253_402_300_799, 1_999_999_999, 0, "9999-12-31 23:59:59 in leap-second representation"),
    (-62_135_596_801, 1_000_000_000, 0, "0000-12-31 23:59:59 in leap-second representation"),
    (-62_198_755_200, 0, 0, "year -1"),
    (-62_167_219_200, 0, 0, "year 0"),
    (-62_135_596_800, 0, 0, "0001-01-01 00:00:00"),
    (253_402_300_799, 999_999_999, 0, "9999-12-31 23:59:59.999999999"),
    (253_402_300_800, 0, 0, "10000-01-01"),
    (8_200_000_000_000, 0, 0, "year ~261800"),
    (915_148_799, 1_500_000_000, 0, "leap-second representation"),
    (946_684_799, 999_999_999, 0, "last nanosecond of a century"),
    (-8_200_000_000_000, 0, 0, "year ~-257800"),
    (951_782_400, 0, 50_400, "2000-02-29 +14:00"),
];

thread_local! {
    static CLOCK_READS: Cell<u64> = const { Cell::new(0) };
    static CLOCK_MODE: Cell<(u8, usize)> = const { Cell::new((0, 0)) };
    static LAST_PANIC: RefCell<String> = const { RefCell::new(String::new()) };
}

fn install_clock() {
    sqldatetime::verif_hooks::set_clock(Some(Box::new(|| {
        let n = CLOCK_READS.with(|c| {
            let n = c.get();
            c.set(n + 1);
            n
        });
        let (kind, idx) = CLOCK_MODE.with(|m| m.get());
        let (secs, nanos, off) = match kind {
            0 => (1_709_208_000, 0, 0),
            1 => {
                let e = EXTREME_CLOCKS[idx % EXTREME_CLOCKS.len()];
                (e.0, e.1, e.2)
            }
            _ => (946_684_799 + n as i64 * 86_401, 999_999_999, 0),
        };
        chrono::DateTime::from_timestamp(secs, nanos)
            .expect("clock table")
            .with_timezone(&chrono::FixedOffset::east_opt(off).expect("offset"))
    })));
}

fn set_clock_mode(m: ClockMode) {
    CLOCK_READS.with(|c| c.set(0));
    CLOCK_MODE.with(|c| {
        c.set(match m {
            ClockMode::Normal => (0, 0),
            ClockMode::Extreme(i) => (1, i),
            ClockMode::Ticking => (2, 0),
        })
    });
}

// ---------------------------------------------------------------------------
// thread-exit probe: the crate is called once more from a thread-local
// destructor of the caller (a per-thread exit logger does that). The probe is
// registered BEFORE the thread touches the crate, so it is destroyed AFTER
// whatever per-thread state the crate itself keeps.
// ---------------------------------------------------------------------------

static EXIT_PROBE_PANIC: std::sync::Mutex<Option<String>> = std::sync::Mutex::new(None);

struct ExitProbe;

struct CountSink(usize);
impl std::fmt::Write for CountSink {
    fn write_str(&mut self, s: &str) -> std::fmt::Result {
        self.0 += s.len();
        Ok(())
    }
}

impl Drop for ExitProbe {
    fn drop(&mut self) {
        let r = std::panic::catch_unwind(|| {
            use std::fmt::Write as _;
            let mut sink = CountSink(0);
            if let Ok(f) = sqldatetime::Formatter::try_new("YYYY-MM-DD HH24:MI:SS.FF6 DAY MONTH") {
                let _ = f.format(sqldatetime::Timestamp::MIN, &mut sink);
            }
            let _ = sqldatetime::Date::parse("2020-02-29", "YYYY-MM-DD");
            if let Ok(d) = sqldatetime::Time::ZERO.format("HH24:MI") {
                let _ = write!(sink, "{}", d);
            }
            let _ = sqldatetime::IntervalYM::parse("+0001-02", "YYYY-MM");
        });
        if let Err(e) = r {
            let msg = e
                .downcast_ref::<String>()
                .cloned()
                .or_else(|| e.downcast_ref::<&str>().map(|s| s.to_string()))
                .unwrap_or_else(|| "panic".to_string());
            if let Ok(mut g) = EXIT_PROBE_PANIC.lock() {
                *g = Some(msg);
            }
        }
    }
}

thread_local! {
    static EXIT_PROBE: ExitProbe = const { ExitProbe };
}

// ---------------------------------------------------------------------------
// passes
// ---------------------------------------------------------------------------

#[derive(Clone, Copy, Debug, PartialEq, Eq)]
struct Pass {
    sink_fail_at: Option<usize>,
    sink_capacity: Option<usize>,
    /// refuse allocation request #n (one-shot or persistent from there on)
    alloc_refuse: Option<(u64, bool)>,
    /// when the sink failure fires, refuse the next allocation too (persistent?)
    then_refuse_alloc: Option<bool>,
    clock: ClockMode,
    /// the sink formats other values of the library from inside its own write calls
    reentrant_sink: bool,
    /// the caller's sink (or serializer) panics in this write; afterwards the same call and a
    /// fixed set of other calls are made again and must not panic
    sink_panic_at: Option<usize>,
}

impl Pass {
    const CONTROL: Pass = Pass {
        sink_fail_at: None,
        sink_capacity: None,
        alloc_refuse: None,
        then_refuse_alloc: None,
        clock: ClockMode::Normal,
        reentrant_sink: false,
        sink_panic_at: None,
    };
    fn kind(&self) -> &'static str {
        if self.sink_panic_at.is_some() {
            "sink_panics"
        } else if self.reentrant_sink {
            "reentrant_sink"
        } else if self.sink_fail_at.is_some() && self.then_refuse_alloc.is_some() {
            "sink_write_fail_then_alloc_refused_in_error_path"
        } else if self.sink_fail_at.is_some() {
            "sink_write_fail"
        } else if self.sink_capacity.is_some() {
            "sink_capacity"
        } else if let Some((_, p)) = self.alloc_refuse {
            if p {
                "alloc_refused_persistent"
            } else {
                "alloc_refused_once"
            }
        } else {
            match self.clock {
                ClockMode::Normal => "control",
                ClockMode::Extreme(_) => "clock_extreme",
                ClockMode::Ticking => "clock_tick",
            }
        }
    }
    fn position(&self) -> u64 {
        self.sink_fail_at
            .or(self.sink_panic_at)
            .map(|x| x as u64)
            .or(self.sink_capacity.map(|x| x as u64))
            .or(self.alloc_refuse.map(|x| x.0))
            .unwrap_or(match self.clock {
                ClockMode::Extreme(i) => i as u64,
                _ => 0,
            })
    }
    fn to_json(&self) -> Value {
        json!({
            "kind": self.kind(),
            "sink_fail_at_write": self.sink_fail_at,
            "sink_capacity_bytes": self.sink_capacity,
            "alloc_refuse_request": self.alloc_refuse.map(|x| x.0),
            "alloc_refuse_persistent": self.alloc_refuse.map(|x| x.1),
            "then_refuse_next_alloc_persistent": self.then_refuse_alloc,
            "reentrant_sink": self.reentrant_sink,
            "sink_panics_at_write": self.sink_panic_at,
            "clock": match self.clock {
                ClockMode::Normal => json!("normal"),
                ClockMode::Extreme(i) => json!({"extreme": i, "what": EXTREME_CLOCKS[i % EXTREME_CLOCKS.len()].3}),
                ClockMode::Ticking => json!("ticking"),
            },
        })
    }
    fn from_json(v: &Value) -> Pass {
        let u = |k: &str| v[k].as_u64();
        Pass {
            sink_fail_at: u("sink_fail_at_write").map(|x| x as usize),
            sink_capacity: u("sink_capacity_bytes").map(|x| x as usize),
            alloc_refuse: u("alloc_refuse_request").map(|n| (n, v["alloc_refuse_persistent"].as_bool().unwrap_or(false))),
            then_refuse_alloc: v["then_refuse_next_alloc_persistent"].as_bool(),
            reentrant_sink: v["reentrant_sink"].as_bool().unwrap_or(false),
            sink_panic_at: u("sink_panics_at_write").map(|x| x as usize),
            clock: if v["clock"] == json!("ticking") {
                ClockMode::Ticking
            } else if let Some(i) = v["clock"]["extreme"].as_u64() {
                ClockMode::Extreme(i as usize)
            } else {
                ClockMode::Normal
            },
        }
    }
}

#[derive(Clone, Debug)]
struct PassResult {
    outcome: &'static str,
    panicked: bool,
    panic_msg: String,
    writes: usize,
    bytes: usize,
    allocs: u64,
    refused: u64,
    clock_reads: u64,
    sink_fired: bool,
}

static LAST_PANIC_ANY_THREAD: std::sync::Mutex<String> = std::sync::Mutex::new(String::new());

fn last_panic_message() -> String {
    let local = LAST_PANIC.with(|p| p.borrow().clone());
    if !local.is_empty() {
        return local;
    }
    LAST_PANIC_ANY_THREAD.lock().map(|g| g.clone()).unwrap_or_default()
}

fn run_pass(call: &Call, funcs: &Tables, vals: Option<&calls::Vals>, pass: &Pass) -> PassResult {
    LAST_PANIC.with(|p| p.borrow_mut().clear());
    set_clock_mode(pass.clock);
    let mut sink = FaultySink::new(pass.sink_fail_at, pass.sink_capacity, pass.then_refuse_alloc);
    sink.reentrant = pass.reentrant_sink;
    sink.panic_at = pass.sink_panic_at;
    let r = std::panic::catch_unwind(std::panic::AssertUnwindSafe(|| {
        alloc::arm(pass.alloc_refuse.map(|x| x.0), pass.alloc_refuse.map(|x| x.1).unwrap_or(false));
        let o = calls::execute(call, funcs, vals, &mut sink);
        let (a, refused) = alloc::disarm();
        (o, a, refused)
    }));
    let (a2, r2) = alloc::disarm();
    let clock_reads = CLOCK_READS.with(|c| c.get());
    match r {
        // the property's last clause: a field the type does not carry is reported as an error
        Ok((o, a, refused)) if o == "ok" && calls::must_be_refused(call).is_some() => PassResult {
            outcome: "inapplicable-field-not-refused",
            panicked: true,
            panic_msg: format!(
                "{} no panic, but the call returned Ok: the picture contains the element {}, which this type does not carry, and the property demands that formatting reports an inapplicable field as an error",
                NOT_REFUSED,
                calls::must_be_refused(call).unwrap_or("?")
            ),
            writes: sink.writes,
            bytes: sink.bytes,
            allocs: a,
            refused,
            clock_reads,
            sink_fired: sink.fired,
        },
        Ok((o, a, refused)) => PassResult {
            outcome: o,
            panicked: false,
            panic_msg: String::new(),
            writes: sink.writes,
            bytes: sink.bytes,
            allocs: a,
            refused,
            clock_reads,
            sink_fired: sink.fired,
        },
        Err(payload) if payload.is::<sink::InjectedSinkPanic>() => {
            // the panic was the caller's own. The crate must still work: the same call again with
            // an ordinary sink, then a fixed set of calls of every type.
            let after = std::panic::catch_unwind(std::panic::AssertUnwindSafe(|| {
                let mut plain = FaultySink::new(None, None, None);
                let _ = calls::execute(call, funcs, vals, &mut plain);
                aftermath_calls();
            }));
            PassResult {
                outcome: if after.is_ok() { "caller-sink-panicked" } else { "panic" },
                panicked: after.is_err(),
                panic_msg: if after.is_err() { format!("after a panic inside the caller's sink had unwound through the crate, a later ordinary call panicked: {}", last_panic_message()) } else { String::new() },
                writes: sink.writes,
                bytes: sink.bytes,
                allocs: a2,
                refused: r2,
                clock_reads,
                sink_fired: sink.fired,
            }
        }
        Err(_) => PassResult {
            outcome: "panic",
            panicked: true,
            panic_msg: last_panic_message(),
            writes: sink.writes,
            bytes: sink.bytes,
            allocs: a2,
            refused: r2,
            clock_reads,
            sink_fired: sink.fired,
        },
    }
}

/// Ordinary calls of every type made after a caller's sink panicked inside the crate.
fn aftermath_calls() {
    use serde::Serialize;
    use std::fmt::Write as _;
    let mut sink = CountSink(0);
    if let Ok(f) = sqldatetime::Formatter::try_new("YYYY-MM-DD HH24:MI:SS.FF6 DAY MONTH") {
        let _ = f.format(sqldatetime::Timestamp::MAX, &mut sink);
    }
    if let Ok(d) = sqldatetime::Date::MIN.format("DD MON YYYY") {
        let _ = write!(sink, "{}", d);
    }
    let _ = sqldatetime::Date::parse("2020-02-29", "YYYY-MM-DD");
    for human in [true, false] {
        let _ = sqldatetime::Date::MAX.serialize(firstuse::SimSer::plain(human));
        let _ = sqldatetime::Timestamp::MIN.serialize(firstuse::SimSer::plain(human));
        let _ = sqldatetime::Time::ZERO.serialize(firstuse::SimSer::plain(human));
        let _ = sqldatetime::IntervalYM::ZERO.serialize(firstuse::SimSer::plain(human));
        let _ = sqldatetime::IntervalDT::ZERO.serialize(firstuse::SimSer::plain(human));
        let _ = sqldatetime::OracleDate::MAX.serialize(firstuse::SimSer::plain(human));
    }
}

/// All fault passes for a call whose control pass showed `w` sink writes
/// (`bytes` bytes), `a` allocation requests and `c` clock readings.
fn enumerate_passes(w: usize, bytes: usize, a: u64, c: u64, rng: &mut Rng) -> Vec<Pass> {
    let mut v = Vec::new();
    let mut positions: Vec<usize> = (0..w.min(64)).collect();
    if w > 64 {
        for _ in 0..4 {
            positions.push(64 + rng.usize_below(w - 64));
        }
        positions.push(w - 1);
    }
    for &i in &positions {
        v.push(Pass { sink_fail_at: Some(i), ..Pass::CONTROL });
    }
    if w > 0 {
        // the caller's sink panics in its first, a middle and its last write
        let mut pp = vec![0usize, w / 2, w - 1];
        pp.dedup();
        for i in pp {
            v.push(Pass { sink_panic_at: Some(i), ..Pass::CONTROL });
        }
    }
    if w > 0 {
        // a sink that re-enters the library while it is being written to; alone, and
        // together with a failure at the last write
        v.push(Pass { reentrant_sink: true, ..Pass::CONTROL });
        v.push(Pass { reentrant_sink: true, sink_fail_at: Some(w - 1), ..Pass::CONTROL });
        let mut caps = vec![0usize, 1];
        if bytes > 0 {
            caps.push(bytes - 1);
        }
        caps.dedup();
        for cap in caps {
            v.push(Pass { sink_capacity: Some(cap), ..Pass::CONTROL });
        }
    }
    for j in 0..a.min(32) {
        v.push(Pass { alloc_refuse: Some((j, false)), ..Pass::CONTROL });
        v.push(Pass { alloc_refuse: Some((j, true)), ..Pass::CONTROL });
    }
    for &i in &positions {
        v.push(Pass { sink_fail_at: Some(i), then_refuse_alloc: Some(false), ..Pass::CONTROL });
        v.push(Pass { sink_fail_at: Some(i), then_refuse_alloc: Some(true), ..Pass::CONTROL });
    }
    if c > 0 {
        for i in 0..EXTREME_CLOCKS.len() {
            v.push(Pass { clock: ClockMode::Extreme(i), ..Pass::CONTROL });
        }
        v.push(Pass { clock: ClockMode::Ticking, ..Pass::CONTROL });
        // a clock-reading call that also allocates: refuse under an extreme clock
        if a > 0 {
            v.push(Pass { clock: ClockMode::Extreme(4), alloc_refuse: Some((0, true)), ..Pass::CONTROL });
        }
    }
    v
}

// ---------------------------------------------------------------------------
// worker
// ---------------------------------------------------------------------------

const FAULT_KINDS: [&str; 9] = [
    "sink_panics",
    "reentrant_sink",
    "sink_write_fail",
    "sink_capacity",
    "alloc_refused_once",
    "alloc_refused_persistent",
    "sink_write_fail_then_alloc_refused_in_error_path",
    "clock_extreme",
    "clock_tick",
];

#[derive(Default)]
struct WStats {
    calls: u64,
    passes: u64,
    seamless_calls: u64,
    calls_with_sink: u64,
    calls_with_alloc: u64,
    calls_with_clock: u64,
    configured: BTreeMap<&'static str, u64>,
    fired: BTreeMap<&'static str, u64>,
    outcomes: BTreeMap<&'static str, u64>,
    by_func: BTreeMap<String, u64>,
    probes: BTreeMap<&'static str, u64>,
    distinct: BTreeSet<u64>,
    samples: Vec<Value>,
    violations: Vec<Value>,
    hash: u64,
}

fn probe_call(call: &Call, st: &mut WStats) {
    let mut p = |name: &'static str| *st.probes.entry(name).or_default() += 1;
    let pic = match call {
        Call::TryNew { pic } | Call::Parse { pic, .. } | Call::Format { pic, .. } => Some(pic.as_str()),
        _ => None,
    };
    if let Some(pic) = pic {
        let mut run = 0usize;
        let mut max_run = 0usize;
        for b in pic.bytes() {
            if b == b' ' {
                run += 1;
                max_run = max_run.max(run);
            } else {
                run = 0;
            }
        }
        if max_run >= 256 {
            p("picture_blank_run_ge_256");
        }
        if max_run == 255 {
            p("picture_blank_run_eq_255");
        }
        if !pic.is_ascii() {
            p("picture_non_ascii");
        }
    }
    if let Call::Parse { text, pic, .. } = call {
        if !text.is_ascii() {
            p("text_non_ascii");
        }
        if text.len() >= 255 {
            p("text_len_ge_255");
        }
        if text.is_empty() {
            p("text_empty");
        }
        let up = pic.to_ascii_uppercase();
        if (up == "D" || up.ends_with(" D") || up.starts_with("D ") || up.contains("-D") )
            && text.trim_start().bytes().next().map(|b| b < b'0').unwrap_or(false)
        {
            p("weekday_number_field_meets_byte_below_0");
        }
    }
    if let Call::Format { ty, raw, pic, .. } = call {
        let up = pic.to_ascii_uppercase();
        if up.contains("FF9") {
            p("format_ff9");
        }
        if *ty == calls::Ty::IntervalDT && raw.unsigned_abs() >= 32 * 86_400_000_000 && up.contains("DD") {
            p("format_interval_day_ge_32");
        }
    }
}

fn worker(build: &str, seed: u64, n_calls: u64, index: u64, of: u64, trace: bool, only: Option<u64>, from: u64, until: u64) -> i32 {
    // the process environment is a seam too: odd-numbered workers run with a seeded set of
    // date/locale related variables, even-numbered ones with none of them
    simcore::envswarm::install(&simcore::envswarm::plan(seed, index));
    let funcs = Tables::new();
    std::hint::black_box(firstuse::warm_up_third_party());
    install_clock();
    let mut st = WStats::default();
    // (runs with a reduced budget — set-up warm-up, determinism runs — take a prefix of the grid)
    let grid_n = if n_calls < 50_000 { calls::grid_len(&funcs).min(n_calls) } else { calls::grid_len(&funcs) };
    let grid_end = calls::GRID_BASE + grid_n;
    let mut idx = if index < n_calls { index } else { calls::next_index(index, of, index, n_calls) };
    while idx < from {
        idx = calls::next_index(idx, of, index, n_calls);
    }
    let stderr = std::io::stderr();
    while (idx < n_calls || (idx >= calls::GRID_BASE && idx < grid_end)) && idx <= until {
        if let Some(o) = only {
            if idx != o {
                idx = calls::next_index(idx, of, index, n_calls);
                continue;
            }
        }
        let mut rng = Rng::for_run(seed, tag("C03-call"), idx);
        let call = calls::call_for_index(seed, idx, &funcs, &mut rng);
        let vals = match &call {
            Call::Func { args, .. } | Call::Chain { args, .. } => args.vals(),
            _ => None,
        };
        st.calls += 1;
        *st.by_func.entry(call.func_id()).or_default() += 1;
        probe_call(&call, &mut st);
        // One call in 32 runs on a thread of its own: whatever the library
        // keeps per thread is then in its first-use state for that call.
        let fresh_thread = rng.chance(1, 32) && idx < calls::GRID_BASE;
        if fresh_thread {
            *st.probes.entry("call_executed_on_a_fresh_thread").or_default() += 1;
        }
        let mut body = || -> u64 {
            let mut passes = vec![Pass::CONTROL];
            let mut pi = 0;
            let mut call_hash = simcore::Fnv::new();
            while pi < passes.len() {
                let pass = passes[pi];
                if trace {
                    let _ = writeln!(stderr.lock(), "BEGIN {} {}", idx, pi);
                }
                let r = run_pass(&call, &funcs, vals.as_ref(), &pass);
                st.passes += 1;
                call_hash.write(r.outcome.as_bytes());
                call_hash.write_u64(r.writes as u64);
                call_hash.write_u64(r.allocs);
                *st.outcomes.entry(r.outcome).or_default() += 1;
                if pi == 0 {
                    if r.writes == 0 && r.allocs == 0 && r.clock_reads == 0 {
                        st.seamless_calls += 1;
                    }
                    if r.writes > 0 {
                        st.calls_with_sink += 1;
                    }
                    if r.allocs > 0 {
                        st.calls_with_alloc += 1;
                    }
                    if r.clock_reads > 0 {
                        st.calls_with_clock += 1;
                    }
                    if !r.panicked {
                        passes.extend(enumerate_passes(r.writes, r.bytes, r.allocs, r.clock_reads, &mut rng));
                    }
                    if idx < 40 && (r.writes > 0 || r.allocs > 0) {
                        st.samples.push(json!({"call_index": idx, "call": call.describe(), "control_pass": {"outcome": r.outcome, "sink_writes": r.writes, "sink_bytes": r.bytes, "allocations": r.allocs, "clock_readings": r.clock_reads}, "fault_passes_enumerated": passes.len() - 1}));
                    }
                } else {
                    let kind = pass.kind();
                    *st.configured.entry(kind).or_default() += 1;
                    let fired = pass.reentrant_sink || r.sink_fired || r.refused > 0 || matches!(pass.clock, ClockMode::Extreme(_) | ClockMode::Ticking) && r.clock_reads > 0;
                    if fired {
                        *st.fired.entry(kind).or_default() += 1;
                        let mut h = simcore::Fnv::new();
                        h.write(call.func_id().as_bytes());
                        h.write(build.as_bytes());
                        h.write(kind.as_bytes());
                        h.write_u64(pass.position().min(80));
                        h.write(r.outcome.as_bytes());
                        st.distinct.insert(h.finish());
                    }
                }
                if r.panicked {
                    if st.violations.len() < 5 {
                        st.violations.push(json!({
                            "index": idx, "pass_no": pi, "build": build, "class": if r.panic_msg.starts_with(NOT_REFUSED) { "not-refused" } else { "panic" },
                            "panic": r.panic_msg, "call": call.to_json(), "pass": pass.to_json(), "describe": call.describe(),
                        }));
                    }
                    return call_hash.finish();
                }
                pi += 1;
            }
            call_hash.finish()
        };
        let call_hash_value = if fresh_thread {
            std::thread::scope(|s| {
                s.spawn(|| {
                    EXIT_PROBE.with(|_| ());
                    install_clock();
                    body()
                })
                .join()
                .expect("harness thread")
            })
        } else {
            body()
        };
        if fresh_thread {
            let exit_panic = EXIT_PROBE_PANIC.lock().ok().and_then(|mut g| g.take());
            if let Some(msg) = exit_panic {
                if st.violations.len() < 5 {
                    st.violations.push(json!({
                        "index": idx, "pass_no": 0, "build": build, "class": "panic",
                        "panic": format!("panicked at thread exit (crate called from a thread-local destructor of the caller after this call): {}", msg),
                        "call": call.to_json(), "pass": Pass::CONTROL.to_json(), "describe": call.describe(), "at_thread_exit": true,
                    }));
                }
            }
        }
        st.hash = st.hash.wrapping_add(simcore::pool::batch_mix(idx, call_hash_value));
        idx = calls::next_index(idx, of, index, n_calls);
    }
    let out = json!({
        "calls": st.calls, "passes": st.passes, "seamless_calls": st.seamless_calls,
        "calls_with_sink": st.calls_with_sink, "calls_with_alloc": st.calls_with_alloc, "calls_with_clock": st.calls_with_clock,
        "configured": st.configured, "fired": st.fired, "outcomes": st.outcomes, "by_func": st.by_func, "probes": st.probes,
        "distinct": st.distinct.iter().collect::<Vec<_>>(), "samples": st.samples, "violations": st.violations,
        "hash": format!("{:016x}", st.hash),
    });
    println!("STATS {}", out);
    EXIT_OK
}

/// One first-use probe in this (fresh) process: the first serde use of a type with allocation
/// request `k` refused (k < 0: no fault), then the same again without a fault.
/// exit 0: returned normally; exit 1: panicked; killed by a signal: crash.
fn first_use_probe(ty: u64, human: bool, k: i64, persistent: bool) -> i32 {
    std::hint::black_box(firstuse::warm_up_third_party());
    let r = std::panic::catch_unwind(|| {
        alloc::arm(if k >= 0 { Some(k as u64) } else { None }, persistent);
        firstuse::exercise(ty, human);
        let (seen, refused) = alloc::disarm();
        (seen, refused)
    });
    let _ = alloc::disarm();
    let first = match r {
        Ok((seen, refused)) => format!("first use: {} allocation requests, {} refused", seen, refused),
        Err(_) => {
            println!("PANIC during the first use: {}", LAST_PANIC.with(|p| p.borrow().clone()).replace('\n', " | "));
            return EXIT_VIOLATION;
        }
    };
    // the fault is over: the same calls must work now
    let r2 = std::panic::catch_unwind(|| {
        firstuse::exercise(ty, human);
        firstuse::exercise(ty, !human);
    });
    match r2 {
        Ok(()) => {
            println!("{first}; second use fine");
            EXIT_OK
        }
        Err(_) => {
            println!("PANIC on a later, fault-free use: {}", LAST_PANIC.with(|p| p.borrow().clone()).replace('\n', " | "));
            EXIT_VIOLATION
        }
    }
}

/// Executes one (call, pass) from a replay file in this process.
/// exit 0: returned normally; exit 1: panicked; killed by a signal: crash.
fn exec_one(path: &str) -> i32 {
    let v = match simcore::evidence::read_json(std::path::Path::new(path)) {
        Ok(v) => v,
        Err(e) => {
            eprintln!("harness error: {e}");
            return EXIT_HARNESS;
        }
    };
    let call = match Call::from_json(&v["call"]) {
        Ok(c) => c,
        Err(e) => {
            eprintln!("harness error: bad call: {e}");
            return EXIT_HARNESS;
        }
    };
    let pass = Pass::from_json(&v["pass"]);
    let funcs = Tables::new();
    std::hint::black_box(firstuse::warm_up_third_party());
    install_clock();
    let vals = match &call {
        Call::Func { args, .. } | Call::Chain { args, .. } => args.vals(),
        _ => None,
    };
    let r = run_pass(&call, &funcs, vals.as_ref(), &pass);
    println!(
        "outcome={} writes={} allocs={} refused={} clock_reads={}",
        r.outcome, r.writes, r.allocs, r.refused, r.clock_reads
    );
    if r.panicked {
        println!("PANIC {}", r.panic_msg.replace('\n', " | "));
        EXIT_VIOLATION
    } else {
        EXIT_OK
    }
}

// ---------------------------------------------------------------------------
// coordinator
// ---------------------------------------------------------------------------

/// The unoptimised build is an order of magnitude slower: it runs the first twentieth of the calls.
fn calls_for(build: &str, n_calls: u64) -> u64 {
    if build == "devchk" {
        (n_calls / 20).max(1)
    } else {
        n_calls
    }
}

fn build_exe(build: &str) -> std::path::PathBuf {
    simcore::verif_root().join("sim").join("target").join(build).join("c03")
}

struct WorkerOut {
    stats: Option<Value>,
    crashed: Option<String>,
}

fn spawn_worker(build: &str, seed: u64, calls: u64, index: u64, of: u64, trace: bool, only: Option<u64>) -> std::io::Result<std::process::Child> {
    let mut c = std::process::Command::new(build_exe(build));
    c.arg("--worker")
        .arg("--build")
        .arg(build)
        .arg("--seed")
        .arg(seed.to_string())
        .arg("--calls")
        .arg(calls.to_string())
        .arg("--index")
        .arg(index.to_string())
        .arg("--of")
        .arg(of.to_string());
    if trace {
        c.arg("--trace");
    }
    if let Some(o) = only {
        c.arg("--only").arg(o.to_string());
    }
    c.stdout(std::process::Stdio::piped()).stderr(std::process::Stdio::piped()).spawn()
}

fn collect(child: std::process::Child) -> WorkerOut {
    match child.wait_with_output() {
        Ok(o) => {
            let text = String::from_utf8_lossy(&o.stdout);
            let stats = text
                .lines()
                .find_map(|l| l.strip_prefix("STATS "))
                .and_then(|s| serde_json::from_str::<Value>(s).ok());
            if o.status.success() && stats.is_some() {
                WorkerOut { stats, crashed: None }
            } else {
                let err = String::from_utf8_lossy(&o.stderr);
                let tail: String = err.lines().rev().take(6).collect::<Vec<_>>().into_iter().rev().collect::<Vec<_>>().join(" | ");
                WorkerOut { stats: None, crashed: Some(format!("status {:?}; stderr tail: {}", o.status, tail)) }
            }
        }
        Err(e) => WorkerOut { stats: None, crashed: Some(format!("wait failed: {e}")) },
    }
}

/// Runs (call, pass) in a fresh process of `build`. Returns "ok", "panic: ..", or "crash: ..".
fn exec_in_fresh_process(build: &str, call: &Call, pass: &Pass, scratch: &std::path::Path) -> String {
    let body = json!({"call": call.to_json(), "pass": pass.to_json(), "build": build});
    if simcore::evidence::write_json_atomic(scratch, &body).is_err() {
        return "harness: cannot write scratch".into();
    }
    match std::process::Command::new(build_exe(build)).arg("--exec-one").arg(scratch).output() {
        Ok(o) => {
            let out = String::from_utf8_lossy(&o.stdout);
            match o.status.code() {
                Some(0) => "ok".into(),
                Some(1) => format!("panic: {}", out.lines().find_map(|l| l.strip_prefix("PANIC ")).unwrap_or("")),
                Some(c) => format!("harness: exit code {c}"),
                None => {
                    let err = String::from_utf8_lossy(&o.stderr);
                    format!("crash: {:?} {}", o.status, err.lines().last().unwrap_or(""))
                }
            }
        }
        Err(e) => format!("harness: {e}"),
    }
}

/// Re-executes, in a fresh worker process, the calls `from..=until` of the
/// residue class of `until` (every pass of each), i.e. a suffix of the
/// history of the worker that reported a violation at call `until`.
/// Returns the violation text if that call fails again.
fn exec_history(build: &str, seed: u64, n_calls: u64, of: u64, from: u64, until: u64) -> Option<String> {
    let index = until % of;
    let o = std::process::Command::new(build_exe(build))
        .arg("--worker")
        .arg("--build")
        .arg(build)
        .arg("--seed")
        .arg(seed.to_string())
        .arg("--calls")
        .arg(n_calls.to_string())
        .arg("--index")
        .arg(index.to_string())
        .arg("--of")
        .arg(of.to_string())
        .arg("--from")
        .arg(from.to_string())
        .arg("--until")
        .arg(until.to_string())
        .arg("--trace")
        .output()
        .ok()?;
    let text = String::from_utf8_lossy(&o.stdout);
    let err = String::from_utf8_lossy(&o.stderr);
    if !o.status.success() {
        let last = err.lines().rev().find(|l| l.starts_with("BEGIN "))?;
        let idx: u64 = last.split_whitespace().nth(1)?.parse().ok()?;
        if idx == until {
            return Some(format!("crash: {:?} {}", o.status, err.lines().last().unwrap_or("")));
        }
        return None;
    }
    let stats: Value = serde_json::from_str(text.lines().find_map(|l| l.strip_prefix("STATS "))?).ok()?;
    for v in stats["violations"].as_array()? {
        if v["index"].as_u64() == Some(until) {
            return Some(format!("panic: {}", v["panic"].as_str().unwrap_or("").replace('\n', " | ")));
        }
    }
    None
}

/// Runs one first-use probe in a fresh process of `build`. Returns "ok", "panic: ..", "crash: ..".
fn first_use_in_fresh_process(build: &str, ty: u64, human: bool, k: i64, persistent: bool) -> String {
    match std::process::Command::new(build_exe(build))
        .arg("--first-use")
        .arg(ty.to_string())
        .arg(if human { "1" } else { "0" })
        .arg(k.to_string())
        .arg(if persistent { "1" } else { "0" })
        .output()
    {
        Ok(o) => {
            let out = String::from_utf8_lossy(&o.stdout);
            match o.status.code() {
                Some(0) => "ok".into(),
                Some(1) => format!("panic: {}", out.lines().find(|l| l.starts_with("PANIC")).unwrap_or("")),
                Some(c) => format!("harness: exit code {c}"),
                None => format!("crash: {:?} {}", o.status, String::from_utf8_lossy(&o.stderr).lines().last().unwrap_or("")),
            }
        }
        Err(e) => format!("harness: {e}"),
    }
}

const TYPE_NAMES: [&str; 6] = ["Date", "Timestamp", "Time", "IntervalYM", "IntervalDT", "OracleDate"];

/// Marks the one violation that is not a panic or a crash (see `run_pass`).
const NOT_REFUSED: &str = "[not-refused]";

fn class_of(result: &str) -> &'static str {
    if result.starts_with("panic") && result.contains(NOT_REFUSED) {
        "not-refused"
    } else if result.starts_with("panic") {
        "panic"
    } else if result.starts_with("crash") {
        "crash"
    } else if result.starts_with("harness") {
        "harness"
    } else {
        "ok"
    }
}

fn shrink_str(s: &str, still_fails: &mut dyn FnMut(&str) -> bool) -> String {
    let mut cur: Vec<char> = s.chars().collect();
    let mut chunk = (cur.len() / 2).max(1);
    let mut budget = 120;
    while chunk >= 1 && budget > 0 {
        let mut i = 0;
        let mut removed_any = false;
        while i < cur.len() && budget > 0 {
            let end = (i + chunk).min(cur.len());
            let mut cand = cur.clone();
            cand.drain(i..end);
            budget -= 1;
            let cs: String = cand.iter().collect();
            if still_fails(&cs) {
                cur = cand;
                removed_any = true;
            } else {
                i += chunk;
            }
        }
        if chunk == 1 && !removed_any {
            break;
        }
        if !removed_any || chunk > 1 {
            chunk = if chunk == 1 { 1 } else { chunk / 2 };
        }
        if chunk == 1 && !removed_any {
            break;
        }
    }
    cur.into_iter().collect()
}

fn minimise(build: &str, call: Call, pass: Pass, class: &str, scratch: &std::path::Path) -> (Call, Pass) {
    let fails = |c: &Call, p: &Pass| class_of(&exec_in_fresh_process(build, c, p, scratch)) == class;
    let mut call = call;
    let mut pass = pass;
    // simpler pass first
    for cand in [
        Pass::CONTROL,
        Pass { then_refuse_alloc: None, ..pass },
        Pass { reentrant_sink: false, ..pass },
        Pass { alloc_refuse: pass.alloc_refuse.map(|x| (x.0, false)), ..pass },
        Pass { sink_fail_at: pass.sink_fail_at.map(|_| 0), ..pass },
    ] {
        if cand != pass && fails(&call, &cand) {
            pass = cand;
        }
    }
    match call.clone() {
        Call::TryNew { pic } => {
            let p = shrink_str(&pic, &mut |s| fails(&Call::TryNew { pic: s.to_string() }, &pass));
            call = Call::TryNew { pic: p };
        }
        Call::Parse { ty, text, pic, via_formatter } => {
            let mut via = via_formatter;
            if via && fails(&Call::Parse { ty, text: text.clone(), pic: pic.clone(), via_formatter: false }, &pass) {
                via = false;
            }
            let p = shrink_str(&pic, &mut |s| fails(&Call::Parse { ty, text: text.clone(), pic: s.to_string(), via_formatter: via }, &pass));
            let t = shrink_str(&text, &mut |s| fails(&Call::Parse { ty, text: s.to_string(), pic: p.clone(), via_formatter: via }, &pass));
            call = Call::Parse { ty, text: t, pic: p, via_formatter: via };
        }
        Call::Chain { producer, args, pic, display } => {
            let p = shrink_str(&pic, &mut |s| fails(&Call::Chain { producer: producer.clone(), args: args.clone(), pic: s.to_string(), display }, &pass));
            call = Call::Chain { producer, args, pic: p, display };
        }
        Call::Format { ty, raw, pic, display, flags } => {
            let p = shrink_str(&pic, &mut |s| fails(&Call::Format { ty, raw, pic: s.to_string(), display, flags }, &pass));
            let mut r = raw;
            for cand in [0i64, 1, ty.lo(), ty.hi()] {
                if cand != r && fails(&Call::Format { ty, raw: cand, pic: p.clone(), display, flags }, &pass) {
                    r = cand;
                    break;
                }
            }
            let mut fl = flags;
            if fl != 0 && fails(&Call::Format { ty, raw: r, pic: p.clone(), display, flags: 0 }, &pass) {
                fl = 0;
            }
            call = Call::Format { ty, raw: r, pic: p, display, flags: fl };
        }
        Call::Held { ty, raw, pic, fty, fillers, at_once, other_thread } => {
            // fewer fillers, one at a time
            let mut f = fillers;
            let mk = |f: &Vec<(i64, String)>| Call::Held { ty, raw, pic: pic.clone(), fty, fillers: f.clone(), at_once, other_thread };
            let mut i = 0;
            while i < f.len() {
                let mut cand = f.clone();
                cand.remove(i);
                if fails(&mk(&cand), &pass) {
                    f = cand;
                } else {
                    i += 1;
                }
            }
            call = mk(&f);
        }
        _ => {}
    }
    (call, pass)
}

fn signature(call: &Call, result: &str) -> String {
    // class + where the panic was raised (file:line) + message; for a crash
    // (no panic location) the function that was called.
    let class = class_of(result);
    match result.split("panicked at ").nth(1) {
        Some(rest) => {
            let mut parts = rest.splitn(2, " | ");
            let loc = parts.next().unwrap_or("").trim().trim_end_matches(':');
            // drop the column
            let loc: String = loc.rsplitn(2, ':').last().unwrap_or(loc).to_string();
            let msg: String = parts.next().unwrap_or("").trim().chars().take(50).collect();
            format!("{}:{}:{}", class, loc, msg.replace(' ', "_"))
        }
        None => format!("{}:{}", class, call.func_id()),
    }
}

fn merge_num(into: &mut BTreeMap<String, u64>, v: &Value) {
    if let Some(m) = v.as_object() {
        for (k, n) in m {
            *into.entry(k.clone()).or_default() += n.as_u64().unwrap_or(0);
        }
    }
}

fn coordinator(tier: &str, calls_override: Option<u64>, out: &std::path::Path) -> i32 {
    let thorough = tier == "thorough";
    let seed = simcore::seed_from_env();
    simcore::envswarm::install(&simcore::envswarm::baseline());
    println!("C03 simulation: VERIF_SEED={seed} tier={tier}");
    let t0 = simcore::real_monotonic_s();
    let n_calls: u64 = calls_override.unwrap_or(if thorough { 60_000_000 } else { 2_000_000 });
    let workers = simcore::pool::default_workers() as u64;
    let builds = ["relchk", "release", "devchk"];
    let known = simcore::known::load();
    let scratch = simcore::verif_root().join("sim").join("target").join("c03-scratch.json");

    let mut totals: BTreeMap<&str, u64> = BTreeMap::new();
    let mut configured: BTreeMap<String, u64> = BTreeMap::new();
    let mut fired: BTreeMap<String, u64> = BTreeMap::new();
    let mut outcomes: BTreeMap<String, u64> = BTreeMap::new();
    let mut by_func: BTreeMap<String, u64> = BTreeMap::new();
    let mut probes: BTreeMap<String, u64> = BTreeMap::new();
    let mut distinct: BTreeSet<u64> = BTreeSet::new();
    let mut samples: Vec<Value> = Vec::new();
    let mut hashes: BTreeMap<&str, u64> = BTreeMap::new();
    // (build, index, pass_no, call, pass, result text)
    let mut found: Vec<(String, u64, u64, Call, Pass, String)> = Vec::new();
    let mut harness_errors: Vec<String> = Vec::new();

    // ---- first-use probes: one fresh process each ----
    let mut first_use_probes = 0u64;
    let mut first_use_failures: Vec<(String, u64, bool, i64, bool, String)> = Vec::new();
    for build in builds {
        if !build_exe(build).exists() {
            eprintln!("harness error: {} is not built", build_exe(build).display());
            return EXIT_HARNESS;
        }
        let mut jobs: Vec<(u64, bool, i64, bool)> = Vec::new();
        for ty in 0..firstuse::N_TYPES {
            for human in [false, true] {
                jobs.push((ty, human, -1, false));
                for k in 0..4i64 {
                    jobs.push((ty, human, k, false));
                    jobs.push((ty, human, k, true));
                }
            }
        }
        for chunk in jobs.chunks(workers as usize) {
            let results: Vec<(u64, bool, i64, bool, String)> = std::thread::scope(|sc| {
                let hs: Vec<_> = chunk
                    .iter()
                    .map(|&(ty, human, k, p)| sc.spawn(move || (ty, human, k, p, first_use_in_fresh_process(build, ty, human, k, p))))
                    .collect();
                hs.into_iter().map(|h| h.join().expect("probe thread")).collect()
            });
            for (ty, human, k, p, r) in results {
                first_use_probes += 1;
                match class_of(&r) {
                    "ok" => {}
                    "harness" => harness_errors.push(format!("first-use probe ({build}, {}, human={human}, k={k}): {r}", TYPE_NAMES[ty as usize])),
                    _ => first_use_failures.push((build.to_string(), ty, human, k, p, r)),
                }
            }
        }
    }
    println!("first-use probes: {} fresh processes, {} failing", first_use_probes, first_use_failures.len());

    for build in builds {
        if !build_exe(build).exists() {
            eprintln!("harness error: {} is not built", build_exe(build).display());
            return EXIT_HARNESS;
        }
        let mut children = Vec::new();
        for k in 0..workers {
            match spawn_worker(build, seed, calls_for(build, n_calls), k, workers, false, None) {
                Ok(c) => children.push((k, c)),
                Err(e) => {
                    eprintln!("harness error: cannot spawn worker: {e}");
                    return EXIT_HARNESS;
                }
            }
        }
        for (k, child) in children {
            let o = collect(child);
            if let Some(s) = o.stats {
                for key in ["calls", "passes", "seamless_calls", "calls_with_sink", "calls_with_alloc", "calls_with_clock"] {
                    *totals.entry(key).or_default() += s[key].as_u64().unwrap_or(0);
                }
                merge_num(&mut configured, &s["configured"]);
                merge_num(&mut fired, &s["fired"]);
                merge_num(&mut outcomes, &s["outcomes"]);
                merge_num(&mut by_func, &s["by_func"]);
                merge_num(&mut probes, &s["probes"]);
                if let Some(a) = s["distinct"].as_array() {
                    for d in a {
                        if let Some(x) = d.as_u64() {
                            distinct.insert(x);
                        }
                    }
                }
                if let Some(a) = s["samples"].as_array() {
                    if build == builds[0] {
                        samples.extend(a.iter().cloned());
                    }
                }
                if let Some(h) = s["hash"].as_str().and_then(|h| u64::from_str_radix(h, 16).ok()) {
                    let e = hashes.entry(build).or_default();
                    *e = e.wrapping_add(h);
                }
                if let Some(a) = s["violations"].as_array() {
                    for v in a {
                        if let Ok(call) = Call::from_json(&v["call"]) {
                            found.push((
                                build.to_string(),
                                v["index"].as_u64().unwrap_or(0),
                                v["pass_no"].as_u64().unwrap_or(0),
                                call,
                                Pass::from_json(&v["pass"]),
                                format!("panic: {}", v["panic"].as_str().unwrap_or("")),
                            ));
                        }
                    }
                }
            } else {
                // the worker died: re-run its slice with tracing to find the pass
                println!("worker {k} of build {build} died ({}); re-running its slice with tracing", o.crashed.clone().unwrap_or_default());
                let traced = spawn_worker(build, seed, calls_for(build, n_calls), k, workers, true, None).map(collect_trace);
                match traced {
                    Ok(Some((idx, pno))) => {
                        // regenerate the call and the pass list deterministically
                        let funcs = Tables::new();
                        let mut rng = Rng::for_run(seed, tag("C03-call"), idx);
                        let call = calls::call_for_index(seed, idx, &funcs, &mut rng);
                        simcore::envswarm::install(&simcore::envswarm::plan(seed, k));
                        let located = locate_pass(build, seed, n_calls, idx, pno, &scratch);
                        simcore::envswarm::install(&simcore::envswarm::baseline());
                        match located {
                            Some((pass, result)) => found.push((build.to_string(), idx, pno, call, pass, result)),
                            None => harness_errors.push(format!("worker crash at call {idx} pass {pno} ({build}) did not reproduce in a fresh process")),
                        }
                    }
                    _ => harness_errors.push(format!("worker {k} ({build}) died but the traced re-run did not: {}", o.crashed.unwrap_or_default())),
                }
            }
        }
        println!(
            "build {}: calls={} passes so far={} ({:.1}s)",
            build,
            calls_for(build, n_calls),
            totals.get("passes").copied().unwrap_or(0),
            simcore::real_monotonic_s() - t0
        );
    }

    // ---- violations: confirm in a fresh process, minimise, known-findings filter ----
    found.sort_by(|a, b| (a.1, a.2, a.0.clone()).cmp(&(b.1, b.2, b.0.clone())));
    let mut exit = EXIT_OK;
    let mut lines = Vec::new();
    let mut n_viol = 0;
    let mut seen_sigs: BTreeSet<String> = BTreeSet::new();
    for (build, ty, human, k, p, r) in &first_use_failures {
        // confirm once more in another fresh process
        let again = first_use_in_fresh_process(build, *ty, *human, *k, *p);
        if class_of(&again) != class_of(r) {
            harness_errors.push(format!("first-use failure did not reproduce: {r} / {again}"));
            continue;
        }
        let sig = format!("first_use:{}:{}:{}", class_of(r), TYPE_NAMES[*ty as usize], if r.contains("later, fault-free use") { "poisoned_afterwards" } else { "during_first_use" });
        if !seen_sigs.insert(sig.clone()) {
            continue;
        }
        println!(
            "violation class={} build={} sig={} : first serde use of {} in a fresh process ({} serializer, then a string deserializer) with allocation request {} refused{} -> {}",
            class_of(r), build, sig, TYPE_NAMES[*ty as usize], if *human { "human-readable" } else { "compact" }, k, if *p { " persistently" } else { " once" }, r
        );
        if let Some(desc) = known.lookup(PROPERTY, &sig) {
            println!("KNOWN-FINDING: property={} {} ({})", PROPERTY, sig, desc);
            continue;
        }
        n_viol += 1;
        let path = simcore::verif_root().join("replays").join(format!("C03-{}-firstuse-{}-{}-{}-{}.json", seed, build, ty, *human as u8, k));
        let body = json!({"property": PROPERTY, "kind": "first_use", "class": class_of(r), "signature": sig, "build": build,
            "type_index": ty, "type": TYPE_NAMES[*ty as usize], "human_readable_serializer": human, "refuse_allocation_request": k, "persistent": p, "result": r});
        if let Err(e) = simcore::evidence::write_json_atomic(&path, &body) {
            eprintln!("harness error: cannot write replay: {e}");
            return EXIT_HARNESS;
        }
        lines.push(format!("VIOLATION property={} replay={}", PROPERTY, path.display()));
        exit = EXIT_VIOLATION;
    }
    for (build, idx, pno, call, pass, _result) in found.iter().take(12) {
        // this process, and every process it starts, now runs in the environment of the worker
        // that found the violation
        simcore::envswarm::install(&simcore::envswarm::plan(seed, *idx % workers));
        let first = exec_in_fresh_process(build, call, pass, &scratch);
        let class = class_of(&first);
        if class == "ok" || class == "harness" {
            // not reproducible as a single call: state left by earlier calls of
            // the same worker takes part. Replay a suffix of the worker's history.
            let mut hist: Option<(u64, String)> = None;
            for back in [0u64, 1, 2, 4, 8, 16, 64, 256, 1024, 4096, 1 << 14, 1 << 20] {
                let from = idx.saturating_sub(back * workers);
                if let Some(r) = exec_history(build, seed, calls_for(build, n_calls), workers, from, *idx) {
                    hist = Some((from, r));
                    break;
                }
                if from == 0 {
                    break;
                }
            }
            match hist {
                Some((from, r)) => {
                    let sig = format!("history:{}", signature(call, &r));
                    if !seen_sigs.insert(sig.clone()) {
                        continue;
                    }
                    println!(
                        "violation class={} build={} sig={} : {} fails only after the calls {}..{} (step {}) of its worker were executed before it -> {}",
                        class_of(&r), build, sig, call.describe(), from, idx, workers, r
                    );
                    if let Some(desc) = known.lookup(PROPERTY, &sig) {
                        println!("KNOWN-FINDING: property={} {} ({})", PROPERTY, sig, desc);
                        continue;
                    }
                    n_viol += 1;
                    let path = simcore::verif_root().join("replays").join(format!("C03-{}-{}-{}-history.json", seed, idx, build));
                    let body = json!({
                        "property": PROPERTY, "kind": "history", "class": class_of(&r), "signature": sig, "build": build, "seed": seed, "env": simcore::envswarm::installed_json(),
                        "calls_total": calls_for(build, n_calls), "of": workers, "from": from, "until": idx, "result": r,
                        "describe": format!("calls {}..={} with index % {} == {} generated from seed {}, every pass of each; the last one is {}", from, idx, workers, idx % workers, seed, call.describe()),
                        "call": call.to_json(), "pass": pass.to_json(),
                    });
                    if let Err(e) = simcore::evidence::write_json_atomic(&path, &body) {
                        eprintln!("harness error: cannot write replay: {e}");
                        return EXIT_HARNESS;
                    }
                    lines.push(format!("VIOLATION property={} replay={}", PROPERTY, path.display()));
                    exit = EXIT_VIOLATION;
                }
                None => harness_errors.push(format!("violation at call {idx} pass {pno} ({build}) did not reproduce in a fresh process: {first}")),
            }
            continue;
        }
        let (mc, mp) = minimise(build, call.clone(), *pass, class, &scratch);
        let final_result = exec_in_fresh_process(build, &mc, &mp, &scratch);
        let (mc, mp, final_result) = if class_of(&final_result) == class { (mc, mp, final_result) } else { (call.clone(), *pass, first) };
        let sig = signature(&mc, &final_result);
        if !seen_sigs.insert(sig.clone()) {
            continue;
        }
        println!("violation class={} build={} sig={} : {} under pass {} -> {}", class, build, sig, mc.describe(), mp.to_json(), final_result);
        if let Some(desc) = known.lookup(PROPERTY, &sig) {
            println!("KNOWN-FINDING: property={} {} ({})", PROPERTY, sig, desc);
            continue;
        }
        n_viol += 1;
        let path = simcore::verif_root().join("replays").join(format!("C03-{}-{}-{}.json", seed, idx, build));
        let body = json!({
            "property": PROPERTY, "class": class, "signature": sig, "build": build, "seed": seed, "call_index": idx, "env": simcore::envswarm::installed_json(),
            "result": final_result, "describe": mc.describe(), "call": mc.to_json(), "pass": mp.to_json(),
        });
        if let Err(e) = simcore::evidence::write_json_atomic(&path, &body) {
            eprintln!("harness error: cannot write replay: {e}");
            return EXIT_HARNESS;
        }
        lines.push(format!("VIOLATION property={} replay={}", PROPERTY, path.display()));
        exit = EXIT_VIOLATION;
    }
    // ---- scenario T: caller threads under Miri's seeded scheduler ----
    // (only if nothing was found so far: a broken tree is reported by the cheaper phases first)
    let no_miri = std::env::var_os("VERIF_NO_MIRI").is_some();
    let mut miri_note = json!({"skipped": "an earlier phase reported a violation, or VERIF_NO_MIRI is set"});
    if exit == EXIT_OK && harness_errors.is_empty() && !no_miri {
        // A high preemption rate (Miri switches threads after almost every basic block) interleaves the
        // threads, which run the same functions in step, at the finest grain; lower rates give longer
        // uninterrupted stretches. (seeds, preemption rates, phase mask): mask 3 = concurrent first serde use + every function of
        // the table in lock step; 15 = additionally chained producers and generated calls (slow under Miri)
        let plans: Vec<(u64, Vec<&str>, u32)> = if tier == "thorough" { vec![(48, vec!["0.9", "0.5", "0.1"], 3), (8, vec!["0.9", "0.2"], 15)] } else { vec![(4, vec!["0.9", "0.3"], 3)] };
        let mut total = 0u64;
        let mut wall_m = 0.0;
        let mut skipped: Option<String> = None;
        for (seeds_n, rates, mask) in plans {
            let extra = vec!["3".to_string(), mask.to_string()];
            let m = simcore::miri::run_with("c03", "c03_threads", seeds_n, &rates, seed, &extra);
            total += m.seeds_run;
            wall_m += m.wall_s;
            if let Some((s, rate, text)) = m.failure {
                println!("miri: FAILURE at scheduler seed {} preemption rate {} (phase mask {})", s, rate, mask);
                let first = text.lines().find(|l| l.contains("PANIC in a safe public call")).unwrap_or("").to_string();
                let sig = format!("threads:{}", first.split("panicked at ").nth(1).unwrap_or(&first).split(':').take(2).collect::<Vec<_>>().join(":"));
                let what: Vec<&str> = text.lines().skip_while(|l| !l.contains("PANIC in a safe public call")).take(3).collect();
                let what = if what.is_empty() { tail_chars(&text, 700).replace('\n', " | ") } else { what.join(" | ") };
                println!("violation class=panic build=miri sig={} : threads using the crate concurrently -> {}", sig, what);
                if let Some(desc) = known.lookup(PROPERTY, &sig) {
                    println!("KNOWN-FINDING: property={} {} ({})", PROPERTY, sig, desc);
                } else {
                    n_viol += 1;
                    let path = simcore::verif_root().join("replays").join(format!("C03-miri-{}-{}.json", seed, s));
                    let body = json!({"property": PROPERTY, "kind": "miri", "signature": sig, "miri_seed": s, "preemption_rate": rate, "workload_seed": seed, "extra_args": extra, "detail": text});
                    if let Err(e) = simcore::evidence::write_json_atomic(&path, &body) {
                        eprintln!("harness error: cannot write replay: {e}");
                        return EXIT_HARNESS;
                    }
                    lines.push(format!("VIOLATION property={} replay={}", PROPERTY, path.display()));
                    exit = EXIT_VIOLATION;
                }
                break;
            }
            if let Some(why) = m.skipped {
                skipped = Some(why);
                break;
            }
        }
        match &skipped {
            Some(why) => println!("miri: skipped: {}", why.lines().last().unwrap_or("")),
            None if exit == EXIT_OK => println!("miri: {} scheduler seeds clean in {:.1}s (threads scenario)", total, wall_m),
            None => {}
        }
        miri_note = json!({
            "scheduler": "Miri seeded scheduler (-Zmiri-many-seeds, -Zmiri-preemption-rate); one (miri seed, rate, workload seed) = one repeatable interleaving",
            "scenario": "3 threads: concurrent first serde use of every type, then every function of the workload table in lock step with per-thread operands; thorough adds chained producers and generated format / parse / held-value calls",
            "scheduler_seeds_run": total, "wall_s": wall_m, "skipped": skipped,
        });
    }
    if exit == EXIT_OK && !harness_errors.is_empty() {
        for e in &harness_errors {
            eprintln!("harness error: {e}");
        }
        exit = EXIT_HARNESS;
    }
    let _ = std::fs::remove_file(&scratch);

    // ---- evidence ----
    let wall = simcore::real_monotonic_s() - t0;
    let mut fk = serde_json::Map::new();
    for k in FAULT_KINDS {
        fk.insert(k.to_string(), json!({"configured": configured.get(k).copied().unwrap_or(0), "fired": fired.get(k).copied().unwrap_or(0)}));
    }
    samples.sort_by_key(|s| s["call_index"].as_u64().unwrap_or(u64::MAX));
    samples.truncate(4);
    if samples.is_empty() {
        samples.push(json!({"note": "no call with a seam sampled"}));
    }
    let passes = totals.get("passes").copied().unwrap_or(0);
    let evidence = json!({
        "property_id": PROPERTY,
        "tier": tier,
        "seed": seed,
        "level": "fault_enumeration",
        "wall_s": wall,
        "violations": n_viol,
        "coverage": {
            "evaluations": passes,
            "distinct_nontrivial": distinct.len(),
            "rule": "evaluations = passes executed (one pass = one call of the real library under one fault configuration, in one build); for every sampled call the control pass reveals its fault map (sink writes, allocation requests, clock readings) and then EVERY fault point is enumerated: each sink write failing, sink capacities 0/1/len-1, each allocation refused once and persistently, sink failure combined with refusal of the allocation made in the error path, each extreme clock reading and a ticking clock. distinct_nontrivial = distinct (function, build, fault kind, fault position, outcome class) tuples among passes in which the injected fault actually fired.",
            "exhaustive": false,
            "samples": samples,
            "calls_per_build": n_calls,
            "scaling_grid_calls_per_build": calls::grid_len(&Tables::new()),
            "builds": builds,
            "build_profiles": {"relchk": "optimised, overflow-checks = true, debug-assertions = true", "release": "optimised, both off", "devchk": "crate under test and harness at opt-level 0 with overflow checks and debug assertions (the configuration of cargo test / cargo build); runs the first twentieth of the calls"},
            "calls": totals.get("calls").copied().unwrap_or(0),
            "seamless_calls": totals.get("seamless_calls").copied().unwrap_or(0),
            "calls_with_sink_writes": totals.get("calls_with_sink").copied().unwrap_or(0),
            "calls_with_allocations": totals.get("calls_with_alloc").copied().unwrap_or(0),
            "calls_with_clock_readings": totals.get("calls_with_clock").copied().unwrap_or(0),
            "runs_per_hour": if wall > 0.0 { (passes as f64 / wall * 3600.0) as u64 } else { 0 },
            "seeds": format!("VERIF_SEED={} -> per-call xoshiro256** streams for call indices 0..{}", seed, n_calls),
            "fault_kinds": fk,
            "outcome_classes": outcomes,
            "calls_by_function": by_func,
            "functions_covered": by_func.len(),
            "probes": probes,
            "simulated_time_covered": "not meaningful: no timers in the code under test; the clock is a value source (10 extreme readings + a ticking clock per clock-reading call)",
            "batch_hash": hashes.iter().map(|(b, h)| format!("{}:{:016x}", b, h)).collect::<Vec<_>>().join(" "),
            "workers": workers,
            "first_use_probes": {"fresh_processes": first_use_probes, "what": "first serde serialization/deserialization of each type in a process (builds the shared static formatters) with allocation request 0..3 refused once / persistently, then the same calls fault-free; harness-side non-allocating serializer and deserializer; third-party start-up allocation (parking_lot table) warmed up first"},
            "interleavings": miri_note,
            "environment_swarm": simcore::envswarm::evidence(seed, workers),
            "process_isolation": "each build runs in worker processes; a worker death (abort, stack overflow) is located by a traced re-run and confirmed in a fresh process",
            "components": {
                "real": ["all of sqldatetime in two build configurations", "core::fmt machinery between LazyFormat and the sink"],
                "stub": ["text sink (FaultySink)", "allocator (FailingAlloc wrapping System)", "clock (verif-hooks override)"]
            },
        },
        "assumptions": [
            "only panic and abort are violations; error variants and results under fault are not compared",
            "to_string()/format!() are never applied to the lazy Display value (std panics by contract when Display errs)",
            "Month::from(usize) / WeekDay::from(usize) document their panic and belong to none of the six types; they are outside the workload",
            "inputs are sampled by the seeded generators; fault points of each sampled call are enumerated"
        ],
    });
    if let Err(e) = simcore::evidence::write_json_atomic(out, &evidence) {
        eprintln!("harness error: cannot write evidence: {e}");
        return EXIT_HARNESS;
    }
    println!(
        "C03: calls={} passes={} distinct_nontrivial={} seamless_calls={} wall={:.1}s",
        totals.get("calls").copied().unwrap_or(0),
        passes,
        distinct.len(),
        totals.get("seamless_calls").copied().unwrap_or(0),
        wall
    );
    for l in lines {
        println!("{l}");
    }
    exit
}

fn tail_chars(s: &str, n: usize) -> String {
    let chars: Vec<char> = s.chars().collect();
    chars[chars.len().saturating_sub(n)..].iter().collect()
}

/// Waits for a traced worker and returns the last "BEGIN idx pass" it announced, if it died.
fn collect_trace(child: std::process::Child) -> Option<(u64, u64)> {
    let o = child.wait_with_output().ok()?;
    if o.status.success() {
        return None;
    }
    let err = String::from_utf8_lossy(&o.stderr);
    let last = err.lines().rev().find(|l| l.starts_with("BEGIN "))?;
    let mut it = last.split_whitespace().skip(1);
    Some((it.next()?.parse().ok()?, it.next()?.parse().ok()?))
}

/// Re-derives pass number `pno` of call `idx` by re-running only that call with tracing, in fresh processes.
fn locate_pass(build: &str, seed: u64, n_calls: u64, idx: u64, pno: u64, scratch: &std::path::Path) -> Option<(Pass, String)> {
    // The pass list depends on the control pass; recompute it here in-process
    // (the control pass itself did not crash, or pno would be 0).
    let funcs = Tables::new();
    std::hint::black_box(firstuse::warm_up_third_party());
    install_clock();
    let mut rng = Rng::for_run(seed, tag("C03-call"), idx);
    let call = calls::call_for_index(seed, idx, &funcs, &mut rng);
    let _ = n_calls;
    let pass = if pno == 0 {
        Pass::CONTROL
    } else {
        // the control pass must run in a process of the same build: ask a worker for it
        let o = std::process::Command::new(build_exe(build))
            .arg("--list-passes")
            .arg("--seed")
            .arg(seed.to_string())
            .arg("--only")
            .arg(idx.to_string())
            .output()
            .ok()?;
        let text = String::from_utf8_lossy(&o.stdout);
        let arr: Value = serde_json::from_str(text.lines().find_map(|l| l.strip_prefix("PASSES "))?).ok()?;
        Pass::from_json(arr.as_array()?.get(pno as usize)?)
    };
    let result = exec_in_fresh_process(build, &call, &pass, scratch);
    if class_of(&result) == "ok" || class_of(&result) == "harness" {
        // not reproducible as a single call: state left by earlier calls of the worker takes part;
        // the confirmation step replays a suffix of the worker's history
        Some((pass, "crash: the worker process died in this pass (not reproducible as a single call)".to_string()))
    } else {
        Some((pass, result))
    }
}

fn list_passes(seed: u64, idx: u64) -> i32 {
    let funcs = Tables::new();
    std::hint::black_box(firstuse::warm_up_third_party());
    install_clock();
    let mut rng = Rng::for_run(seed, tag("C03-call"), idx);
    let call = calls::call_for_index(seed, idx, &funcs, &mut rng);
    let vals = match &call {
        Call::Func { args, .. } | Call::Chain { args, .. } => args.vals(),
        _ => None,
    };
    let _fresh_thread = rng.chance(1, 32);
    let r = run_pass(&call, &funcs, vals.as_ref(), &Pass::CONTROL);
    let mut passes = vec![Pass::CONTROL];
    if !r.panicked {
        passes.extend(enumerate_passes(r.writes, r.bytes, r.allocs, r.clock_reads, &mut rng));
    }
    println!("PASSES {}", Value::Array(passes.iter().map(|p| p.to_json()).collect()));
    EXIT_OK
}

fn replay(path: &str) -> i32 {
    let v = match simcore::evidence::read_json(std::path::Path::new(path)) {
        Ok(v) => v,
        Err(e) => {
            eprintln!("harness error: {e}");
            return EXIT_HARNESS;
        }
    };
    let build = v["build"].as_str().unwrap_or("relchk").to_string();
    // the environment of the worker process that found it (children inherit it)
    simcore::envswarm::install_from_json(&v["env"]);
    if v["kind"].as_str() == Some("miri") {
        return simcore::miri::replay(PROPERTY, "c03", "c03_threads", &v, path);
    }
    if v["kind"].as_str() == Some("first_use") {
        let r = first_use_in_fresh_process(
            &build,
            v["type_index"].as_u64().unwrap_or(0),
            v["human_readable_serializer"].as_bool().unwrap_or(true),
            v["refuse_allocation_request"].as_i64().unwrap_or(-1),
            v["persistent"].as_bool().unwrap_or(false),
        );
        println!("replay {}: first-use probe -> {}", path, r);
        return match class_of(&r) {
            "panic" | "crash" => {
                println!("VIOLATION property={} replay={}", PROPERTY, path);
                EXIT_VIOLATION
            }
            "ok" => {
                println!("no violation on this tree");
                EXIT_OK
            }
            _ => EXIT_HARNESS,
        };
    }
    if v["kind"].as_str() == Some("history") {
        let r = exec_history(
            &build,
            v["seed"].as_u64().unwrap_or(0),
            v["calls_total"].as_u64().unwrap_or(0),
            v["of"].as_u64().unwrap_or(1),
            v["from"].as_u64().unwrap_or(0),
            v["until"].as_u64().unwrap_or(0),
        );
        return match r {
            Some(r) => {
                println!("replay {}: {} -> {}", path, v["describe"].as_str().unwrap_or(""), r);
                println!("VIOLATION property={} replay={}", PROPERTY, path);
                EXIT_VIOLATION
            }
            None => {
                println!("no violation on this tree");
                EXIT_OK
            }
        };
    }
    let call = match Call::from_json(&v["call"]) {
        Ok(c) => c,
        Err(e) => {
            eprintln!("harness error: bad call: {e}");
            return EXIT_HARNESS;
        }
    };
    let pass = Pass::from_json(&v["pass"]);
    let scratch = simcore::verif_root().join("sim").join("target").join("c03-replay-scratch.json");
    let r = exec_in_fresh_process(&build, &call, &pass, &scratch);
    let _ = std::fs::remove_file(&scratch);
    println!("replay {}: build={} {} under pass {} -> {}", path, build, call.describe(), pass.to_json(), r);
    match class_of(&r) {
        "panic" | "crash" => {
            println!("VIOLATION property={} replay={}", PROPERTY, path);
            EXIT_VIOLATION
        }
        "ok" => {
            println!("no violation on this tree");
            EXIT_OK
        }
        _ => EXIT_HARNESS,
    }
}

fn main() {
    let args: Vec<String> = std::env::args().collect();
    std::panic::set_hook(Box::new(|info| {
        // first thing: stop refusing allocations, the panic machinery needs them
        let _ = alloc::disarm();
        let msg = format!("{}", info);
        // (a panic on a helper thread — a held value rendered elsewhere — is read from here)
        if let Ok(mut g) = LAST_PANIC_ANY_THREAD.lock() {
            *g = msg.clone();
        }
        let _ = LAST_PANIC.try_with(|p| {
            if let Ok(mut p) = p.try_borrow_mut() {
                *p = msg;
            }
        });
    }));
    let mut tier = std::env::var("VERIF_TIER").unwrap_or_else(|_| "quick".into());
    let mut is_worker = false;
    let mut build = String::from("release");
    let mut seed = simcore::seed_from_env();
    let mut calls_n: Option<u64> = None;
    let mut index = 0u64;
    let mut of = 1u64;
    let mut trace = false;
    let mut only: Option<u64> = None;
    let mut from = 0u64;
    let mut until = u64::MAX;
    let mut out = simcore::verif_root().join("evidence").join("C03.json");
    let mut i = 1;
    while i < args.len() {
        let take = |i: &mut usize| -> String {
            *i += 1;
            args.get(*i).cloned().unwrap_or_default()
        };
        match args[i].as_str() {
            "--tier" => tier = take(&mut i),
            "--worker" => is_worker = true,
            "--build" => build = take(&mut i),
            "--seed" => seed = take(&mut i).parse().unwrap_or(seed),
            "--calls" => calls_n = take(&mut i).parse().ok(),
            "--index" => index = take(&mut i).parse().unwrap_or(0),
            "--of" => of = take(&mut i).parse().unwrap_or(1),
            "--trace" => trace = true,
            "--only" => only = take(&mut i).parse().ok(),
            "--from" => from = take(&mut i).parse().unwrap_or(0),
            "--until" => until = take(&mut i).parse().unwrap_or(u64::MAX),
            "--out" => out = take(&mut i).into(),
            "--first-use" => {
                let ty: u64 = take(&mut i).parse().unwrap_or(0);
                let human = take(&mut i) == "1";
                let k: i64 = take(&mut i).parse().unwrap_or(-1);
                let persistent = take(&mut i) == "1";
                std::process::exit(first_use_probe(ty, human, k, persistent));
            }
            "--exec-one" => {
                let f = take(&mut i);
                std::process::exit(exec_one(&f));
            }
            "--replay" => {
                let f = take(&mut i);
                std::process::exit(replay(&f));
            }
            "--list-passes" => {
                // remaining args parsed below
                let mut s = seed;
                let mut o = 0u64;
                let mut j = i + 1;
                while j < args.len() {
                    match args[j].as_str() {
                        "--seed" => {
                            j += 1;
                            s = args[j].parse().unwrap_or(s);
                        }
                        "--only" => {
                            j += 1;
                            o = args[j].parse().unwrap_or(0);
                        }
                        _ => {}
                    }
                    j += 1;
                }
                std::process::exit(list_passes(s, o));
            }
            other => {
                eprintln!("unknown argument {other}");
                std::process::exit(EXIT_HARNESS);
            }
        }
        i += 1;
    }
    if is_worker {
        std::process::exit(worker(&build, seed, calls_n.unwrap_or(1000), index, of.max(1), trace, only, from, until));
    }
    if tier != "quick" && tier != "thorough" {
        eprintln!("unknown tier {tier}");
        std::process::exit(EXIT_HARNESS);
    }
    std::process::exit(coordinator(&tier, calls_n, &out));
}
