fn main() {}
