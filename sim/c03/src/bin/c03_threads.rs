//! Scenario T of C03: several caller threads use the crate at the same time —
//! the first serde use of every type (the shared static formatters), then every
//! function of the workload table in lock step (each thread with operands of its
//! own, so that anything the crate shares between threads is written by one thread
//! while another reads it), then generated format / parse / held-value calls.
//! The property is "no safe public call panics": any panic on any thread fails the run.
//! Run under Miri: `-Zmiri-seed=<s> -Zmiri-preemption-rate=<p>` fixes the
//! interleaving, so (s, p, workload seed) is one exactly repeatable execution.
//!
//! usage: c03_threads <workload seed> [threads]

#[allow(dead_code)]
#[path = "../alloc.rs"]
mod alloc;
#[allow(dead_code)]
#[path = "../calls.rs"]
mod calls;
#[allow(dead_code)]
#[path = "../firstuse.rs"]
mod firstuse;
#[allow(dead_code)]
#[path = "../sink.rs"]
mod sink;

use calls::{Args, Call, Tables, Vals};
use simcore::rng::{tag, Rng};
use sink::FaultySink;
use std::cell::RefCell;
use std::sync::Barrier;

thread_local! {
    static CURRENT: RefCell<String> = const { RefCell::new(String::new()) };
}

fn now_doing(what: &str) {
    CURRENT.with(|c| {
        let mut c = c.borrow_mut();
        c.clear();
        c.push_str(what);
    });
}

fn draw_vals(rng: &mut Rng) -> Vals {
    loop {
        if let Some(v) = Args::draw(rng).vals() {
            return v;
        }
    }
}

fn first_serde_use(v: &Vals, who: usize) {
    for k in 0..6 {
        match (k + who) % 6 {
            0 => {
                now_doing("first serde use: Date");
                let s = serde_json::to_string(&v.d).unwrap_or_default();
                let _ = serde_json::from_str::<sqldatetime::Date>(&s);
            }
            1 => {
                now_doing("first serde use: Timestamp");
                let s = serde_json::to_string(&v.ts).unwrap_or_default();
                let _ = serde_json::from_str::<sqldatetime::Timestamp>(&s);
            }
            2 => {
                now_doing("first serde use: Time");
                let s = serde_json::to_string(&v.t).unwrap_or_default();
                let _ = serde_json::from_str::<sqldatetime::Time>(&s);
            }
            3 => {
                now_doing("first serde use: IntervalYM");
                let s = serde_json::to_string(&v.ym).unwrap_or_default();
                let _ = serde_json::from_str::<sqldatetime::IntervalYM>(&s);
            }
            4 => {
                now_doing("first serde use: IntervalDT");
                let s = serde_json::to_string(&v.dt).unwrap_or_default();
                let _ = serde_json::from_str::<sqldatetime::IntervalDT>(&s);
            }
            _ => {
                now_doing("first serde use: OracleDate");
                let s = serde_json::to_string(&v.od).unwrap_or_default();
                let _ = serde_json::from_str::<sqldatetime::OracleDate>(&s);
            }
        }
    }
}

fn main() {
    let args: Vec<String> = std::env::args().collect();
    let workload: u64 = args.get(1).and_then(|s| s.parse().ok()).unwrap_or(1);
    let threads: usize = args.get(2).and_then(|s| s.parse().ok()).unwrap_or(3);
    // which phases run (bit mask; all by default)
    let phases: u32 = args.get(3).and_then(|s| s.parse().ok()).unwrap_or(15);
    std::panic::set_hook(Box::new(|info| {
        // only the first panic is reported (in one write, so that it is not interleaved with others)
        static REPORTED: std::sync::atomic::AtomicBool = std::sync::atomic::AtomicBool::new(false);
        if REPORTED.swap(true, std::sync::atomic::Ordering::SeqCst) {
            loop {
                std::thread::park();
            }
        }
        let what = CURRENT.try_with(|c| c.try_borrow().map(|s| s.clone()).unwrap_or_default()).unwrap_or_default();
        let msg = format!("PANIC in a safe public call ({what}): {info}\n");
        let _ = std::io::Write::write_all(&mut std::io::stderr(), msg.as_bytes());
        // the other threads may be waiting at a barrier for this one: end the run here
        std::process::exit(1);
    }));
    let tables = Tables::new();
    let barrier = Barrier::new(threads);
    let failed = std::thread::scope(|s| {
        let mut handles = Vec::new();
        for who in 0..threads {
            let tables = &tables;
            let barrier = &barrier;
            handles.push(s.spawn(move || {
                // no real clock may be touched inside the simulation; every thread has a date of its own
                sqldatetime::verif_hooks::set_clock(Some(Box::new(move || {
                    chrono::DateTime::from_timestamp(946_684_799 + who as i64 * 40_000_000, 999_999_999)
                        .unwrap()
                        .with_timezone(&chrono::FixedOffset::east_opt(who as i32 * 20_700).unwrap())
                })));
                let mut rng = Rng::for_run(workload, tag("C03-threads"), who as u64);
                let mut va = draw_vals(&mut rng);
                let mut vb = draw_vals(&mut rng);
                barrier.wait();
                if phases & 1 != 0 {
                    first_serde_use(&va, who);
                }
                // every function of the table, all threads in step (a barrier every 8 functions),
                // alternating between two operand sets so that per-thread and shared state flips
                for (i, (name, f)) in tables.funcs.iter().enumerate() {
                    if phases & 2 == 0 {
                        break;
                    }
                    if i % 8 == 0 {
                        barrier.wait();
                    }
                    if i % 32 == 31 {
                        va = draw_vals(&mut rng);
                        vb = draw_vals(&mut rng);
                    }
                    now_doing(name);
                    // repeated calls with the same operands (whatever the crate remembers is hit again
                    // while other threads overwrite it), then the other operand set
                    for _ in 0..1 {
                        f(&va);
                        f(&va);
                        f(&vb);
                        f(&vb);
                    }
                }
                barrier.wait();
                // values returned by the producers, handed on to accessors / trunc / round / format
                for (i, (name, _)) in tables.prods.iter().enumerate() {
                    if i % 3 != who % 3 || phases & 4 == 0 {
                        continue;
                    }
                    let call = Call::Chain { producer: name.to_string(), args: Args::draw(&mut rng), pic: "YYYY-MM-DD HH24:MI:SS".to_string(), display: i % 2 == 0 };
                    let vals = match &call {
                        Call::Chain { args, .. } => args.vals(),
                        _ => None,
                    };
                    now_doing(&call.describe());
                    let mut sink = FaultySink::new(None, None, None);
                    calls::execute(&call, tables, vals.as_ref(), &mut sink);
                }
                barrier.wait();
                // generated calls (format, parse, held lazy values, now, ...)
                for _ in 0..24 {
                    if phases & 8 == 0 {
                        break;
                    }
                    let call = loop {
                        let c = calls::gen_call(&mut rng, tables);
                        // keep Miri time bounded: no 5000-byte texts / 600-blank pictures here
                        let small = match &c {
                            Call::Parse { text, pic, .. } => text.len() + pic.len() < 200,
                            Call::Format { pic, .. } | Call::TryNew { pic } | Call::Chain { pic, .. } => pic.len() < 200,
                            Call::Held { pic, fillers, .. } => pic.len() < 100 && fillers.iter().all(|(_, p)| p.len() < 100),
                            _ => true,
                        };
                        if small {
                            break c;
                        }
                    };
                    let vals = match &call {
                        Call::Func { args, .. } | Call::Chain { args, .. } => args.vals(),
                        _ => None,
                    };
                    now_doing(&call.describe());
                    let mut sink = FaultySink::new(None, None, None);
                    calls::execute(&call, tables, vals.as_ref(), &mut sink);
                }
            }));
        }
        handles.into_iter().map(|h| h.join().is_err()).filter(|e| *e).count()
    });
    if failed > 0 {
        eprintln!("{failed} thread(s) panicked inside a safe public call");
        std::process::exit(1);
    }
}
