//! Text-sink seam: a non-allocating fmt::Write that counts writes and bytes
//! and can fail the i-th write or run out of capacity.

use std::fmt;

pub struct FaultySink {
    pub writes: usize,
    pub bytes: usize,
    pub fail_at: Option<usize>,
    pub capacity: Option<usize>,
    /// Some(persistent): when the injected failure fires, also refuse the next allocation
    pub then_refuse_alloc: Option<bool>,
    pub fired: bool,
    /// a sink that itself formats a value of the library whenever it is written
    /// to (a log-line writer stamping its lines): the library is re-entered from
    /// inside its own write call
    pub reentrant: bool,
    /// the caller's sink itself panics in its i-th write (a bug in caller code, unwinding
    /// through the crate); what is checked is that the crate still works afterwards
    pub panic_at: Option<usize>,
    depth: u8,
}

/// Payload of the injected sink panic, so that the harness can tell it from a panic of the crate.
pub struct InjectedSinkPanic;

impl FaultySink {
    pub fn new(fail_at: Option<usize>, capacity: Option<usize>, then_refuse_alloc: Option<bool>) -> Self {
        FaultySink {
            writes: 0,
            bytes: 0,
            fail_at,
            capacity,
            then_refuse_alloc,
            fired: false,
            reentrant: false,
            panic_at: None,
            depth: 0,
        }
    }
    fn fail(&mut self) -> fmt::Result {
        self.fired = true;
        if let Some(p) = self.then_refuse_alloc {
            crate::alloc::refuse_next(p);
        }
        Err(fmt::Error)
    }
}

/// counts bytes, never fails, never allocates
struct Inner(usize);
impl fmt::Write for Inner {
    fn write_str(&mut self, s: &str) -> fmt::Result {
        self.0 += s.len();
        Ok(())
    }
}

impl fmt::Write for FaultySink {
    fn write_str(&mut self, s: &str) -> fmt::Result {
        let idx = self.writes;
        self.writes += 1;
        if self.reentrant && self.depth == 0 {
            self.depth = 1;
            let mut inner = Inner(0);
            let stamp = sqldatetime::Timestamp::MIN;
            if let Ok(d) = stamp.format("YYYY-MM-DD HH24:MI:SS.FF6") {
                let _ = write!(inner, "{} ", d);
            }
            if let Ok(f) = sqldatetime::Formatter::try_new("DAY, DD MONTH YYYY") {
                let _ = f.format(sqldatetime::Date::MAX, &mut inner);
            }
            self.depth = 0;
        }
        if self.panic_at == Some(idx) {
            self.fired = true;
            std::panic::panic_any(InjectedSinkPanic);
        }
        if self.fail_at == Some(idx) {
            return self.fail();
        }
        if let Some(cap) = self.capacity {
            if self.bytes + s.len() > cap {
                return self.fail();
            }
        }
        self.bytes += s.len();
        Ok(())
    }
}
