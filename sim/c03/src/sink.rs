//! Text-sink seam: a non-allocating fmt::Write that counts writes and bytes
//! and can fail the i-th write or run out of capacity.

use std::fmt;

pub struct FaultySink {
    pub writes: usize,
    pub bytes: usize,
    pub fail_at: Option<usize>,
    pub capacity: Option<usize>,
    /// Some(persistent): when the injected failure fires, also refuse the next allocation
    pub then_refuse_alloc: Option<bool>,
    pub fired: bool,
}

impl FaultySink {
    pub fn new(fail_at: Option<usize>, capacity: Option<usize>, then_refuse_alloc: Option<bool>) -> Self {
        FaultySink {
            writes: 0,
            bytes: 0,
            fail_at,
            capacity,
            then_refuse_alloc,
            fired: false,
        }
    }
    fn fail(&mut self) -> fmt::Result {
        self.fired = true;
        if let Some(p) = self.then_refuse_alloc {
            crate::alloc::refuse_next(p);
        }
        Err(fmt::Error)
    }
}

impl fmt::Write for FaultySink {
    fn write_str(&mut self, s: &str) -> fmt::Result {
        let idx = self.writes;
        self.writes += 1;
        if self.fail_at == Some(idx) {
            return self.fail();
        }
        if let Some(cap) = self.capacity {
            if self.bytes + s.len() > cap {
                return self.fail();
            }
        }
        self.bytes += s.len();
        Ok(())
    }
}
