//! First-use probes: one fresh process per probe. The FIRST human-readable or
//! compact serialization / deserialization of a type in a process (which is
//! when the crate builds its shared static formatters) is executed with an
//! allocation refused at a chosen point, and then once more without a fault.
//! Serializer and deserializer are the harness's own and never allocate, so
//! every allocation seen belongs to the crate (or to what it chose to call).

use serde::de::{self, IntoDeserializer};
use serde::ser::{self, Impossible};
use serde::{Deserialize, Serialize, Serializer};
use sqldatetime::{Date, IntervalDT, IntervalYM, OracleDate, Time, Timestamp};
use std::fmt;

#[derive(Debug)]
pub struct NoAllocError;
impl fmt::Display for NoAllocError {
    fn fmt(&self, f: &mut fmt::Formatter<'_>) -> fmt::Result {
        f.write_str("error")
    }
}
impl std::error::Error for NoAllocError {}
impl ser::Error for NoAllocError {
    fn custom<T: fmt::Display>(_msg: T) -> Self {
        NoAllocError
    }
}
impl de::Error for NoAllocError {
    fn custom<T: fmt::Display>(_msg: T) -> Self {
        NoAllocError
    }
}

/// Accepts primitives and strings, stores nothing.
pub struct SimSer {
    pub human: bool,
}

macro_rules! prim {
    ($($m:ident: $t:ty),*) => { $(fn $m(self, _v: $t) -> Result<(), NoAllocError> { Ok(()) })* };
}

impl Serializer for SimSer {
    type Ok = ();
    type Error = NoAllocError;
    type SerializeSeq = Impossible<(), NoAllocError>;
    type SerializeTuple = Impossible<(), NoAllocError>;
    type SerializeTupleStruct = Impossible<(), NoAllocError>;
    type SerializeTupleVariant = Impossible<(), NoAllocError>;
    type SerializeMap = Impossible<(), NoAllocError>;
    type SerializeStruct = Impossible<(), NoAllocError>;
    type SerializeStructVariant = Impossible<(), NoAllocError>;
    prim!(serialize_bool: bool, serialize_i8: i8, serialize_i16: i16, serialize_i32: i32, serialize_i64: i64,
          serialize_u8: u8, serialize_u16: u16, serialize_u32: u32, serialize_u64: u64, serialize_f32: f32,
          serialize_f64: f64, serialize_char: char, serialize_str: &str, serialize_bytes: &[u8]);
    fn serialize_none(self) -> Result<(), NoAllocError> {
        Ok(())
    }
    fn serialize_some<T: ?Sized + Serialize>(self, v: &T) -> Result<(), NoAllocError> {
        v.serialize(self)
    }
    fn serialize_unit(self) -> Result<(), NoAllocError> {
        Ok(())
    }
    fn serialize_unit_struct(self, _n: &'static str) -> Result<(), NoAllocError> {
        Ok(())
    }
    fn serialize_unit_variant(self, _n: &'static str, _i: u32, _v: &'static str) -> Result<(), NoAllocError> {
        Ok(())
    }
    fn serialize_newtype_struct<T: ?Sized + Serialize>(self, _n: &'static str, v: &T) -> Result<(), NoAllocError> {
        v.serialize(self)
    }
    fn serialize_newtype_variant<T: ?Sized + Serialize>(self, _n: &'static str, _i: u32, _v: &'static str, _x: &T) -> Result<(), NoAllocError> {
        Err(NoAllocError)
    }
    fn serialize_seq(self, _l: Option<usize>) -> Result<Self::SerializeSeq, NoAllocError> {
        Err(NoAllocError)
    }
    fn serialize_tuple(self, _l: usize) -> Result<Self::SerializeTuple, NoAllocError> {
        Err(NoAllocError)
    }
    fn serialize_tuple_struct(self, _n: &'static str, _l: usize) -> Result<Self::SerializeTupleStruct, NoAllocError> {
        Err(NoAllocError)
    }
    fn serialize_tuple_variant(self, _n: &'static str, _i: u32, _v: &'static str, _l: usize) -> Result<Self::SerializeTupleVariant, NoAllocError> {
        Err(NoAllocError)
    }
    fn serialize_map(self, _l: Option<usize>) -> Result<Self::SerializeMap, NoAllocError> {
        Err(NoAllocError)
    }
    fn serialize_struct(self, _n: &'static str, _l: usize) -> Result<Self::SerializeStruct, NoAllocError> {
        Err(NoAllocError)
    }
    fn serialize_struct_variant(self, _n: &'static str, _i: u32, _v: &'static str, _l: usize) -> Result<Self::SerializeStructVariant, NoAllocError> {
        Err(NoAllocError)
    }
    fn is_human_readable(&self) -> bool {
        self.human
    }
}

/// The crate builds its shared formatters with once_cell (parking_lot flavour). The very
/// first use of that machinery in a process allocates parking_lot's global table
/// infallibly — third-party start-up cost, not the crate's code. A harness-side cell is
/// forced first so that this is out of the way before any allocation is refused.
static WARM_UP: once_cell::sync::Lazy<u64> = once_cell::sync::Lazy::new(|| 0xC03);

pub fn warm_up_third_party() -> u64 {
    *WARM_UP
}

pub const N_TYPES: u64 = 6;
pub const TEXTS: [&str; 6] = [
    "2024-02-29",
    "2024-02-29 13:14:15.123456",
    "13:14:15.123456",
    "+0012-03",
    "+15 13:14:15.123456",
    "2024-02-29 13:14:15",
];

/// One first-use exercise of type `ty` (0..6): serialize (human or compact), then
/// deserialize from a string. Returns normally whatever the results are.
pub fn exercise(ty: u64, human: bool) {
    macro_rules! go {
        ($t:ty, $v:expr) => {{
            let v: $t = $v;
            let _ = std::hint::black_box(v.serialize(SimSer { human }));
            let d: de::value::StrDeserializer<'_, NoAllocError> = TEXTS[ty as usize].into_deserializer();
            let _ = std::hint::black_box(<$t>::deserialize(d).is_ok());
        }};
    }
    match ty {
        0 => go!(Date, Date::try_from_ymd(2024, 2, 29).unwrap()),
        1 => go!(Timestamp, Timestamp::try_from_usecs(1_709_212_455_123_456).unwrap()),
        2 => go!(Time, Time::try_from_usecs(47_655_123_456).unwrap()),
        3 => go!(IntervalYM, IntervalYM::try_from_months(147).unwrap()),
        4 => go!(IntervalDT, IntervalDT::try_from_usecs(1_343_655_123_456).unwrap()),
        _ => go!(OracleDate, OracleDate::try_from_usecs(1_709_212_455_000_000).unwrap()),
    }
}
