//! First-use probes: one fresh process per probe. The FIRST human-readable or
//! compact serialization / deserialization of a type in a process (which is
//! when the crate builds its shared static formatters) is executed with an
//! allocation refused at a chosen point, and then once more without a fault.
//! Serializer and deserializer are the harness's own and never allocate, so
//! every allocation seen belongs to the crate (or to what it chose to call).

use serde::de::{self, IntoDeserializer};
use serde::ser::{self, Impossible};
use serde::{Deserialize, Serialize, Serializer};
use sqldatetime::{Date, IntervalDT, IntervalYM, OracleDate, Time, Timestamp};
use std::fmt;

#[derive(Debug)]
pub struct NoAllocError;
impl fmt::Display for NoAllocError {
    fn fmt(&self, f: &mut fmt::Formatter<'_>) -> fmt::Result {
        f.write_str("error")
    }
}
impl std::error::Error for NoAllocError {}
impl ser::Error for NoAllocError {
    fn custom<T: fmt::Display>(_msg: T) -> Self {
        NoAllocError
    }
}
impl de::Error for NoAllocError {
    fn custom<T: fmt::Display>(_msg: T) -> Self {
        NoAllocError
    }
}

/// Accepts primitives and strings, stores nothing. With a sink attached, every value it is given
/// counts as one write of that sink (which may fail or panic there, as injected).
pub struct SimSer<'s> {
    pub human: bool,
    pub sink: Option<&'s mut crate::sink::FaultySink>,
}

impl SimSer<'static> {
    pub fn plain(human: bool) -> Self {
        SimSer { human, sink: None }
    }
}

macro_rules! prim {
    ($($m:ident: $t:ty),*) => { $(fn $m(self, _v: $t) -> Result<(), NoAllocError> {
        use std::fmt::Write as _;
        match self.sink {
            Some(s) => s.write_str("").map_err(|_| NoAllocError),
            None => Ok(()),
        }
    })* };
}

impl<'s> Serializer for SimSer<'s> {
    type Ok = ();
    type Error = NoAllocError;
    type SerializeSeq = Impossible<(), NoAllocError>;
    type SerializeTuple = Impossible<(), NoAllocError>;
    type SerializeTupleStruct = Impossible<(), NoAllocError>;
    type SerializeTupleVariant = Impossible<(), NoAllocError>;
    type SerializeMap = Impossible<(), NoAllocError>;
    type SerializeStruct = Impossible<(), NoAllocError>;
    type SerializeStructVariant = Impossible<(), NoAllocError>;
    prim!(serialize_bool: bool, serialize_i8: i8, serialize_i16: i16, serialize_i32: i32, serialize_i64: i64,
          serialize_u8: u8, serialize_u16: u16, serialize_u32: u32, serialize_u64: u64, serialize_f32: f32,
          serialize_f64: f64, serialize_char: char, serialize_bytes: &[u8]);
    fn serialize_str(self, v: &str) -> Result<(), NoAllocError> {
        use std::fmt::Write as _;
        match self.sink {
            Some(s) => s.write_str(v).map_err(|_| NoAllocError),
            None => Ok(()),
        }
    }
    /// serde's default `collect_str` builds a `String`; a serializer that must not allocate
    /// renders the value piece by piece instead (into the attached sink, or nowhere)
    fn collect_str<T: ?Sized + fmt::Display>(self, value: &T) -> Result<(), NoAllocError> {
        use std::fmt::Write as _;
        struct Null;
        impl fmt::Write for Null {
            fn write_str(&mut self, _s: &str) -> fmt::Result {
                Ok(())
            }
        }
        match self.sink {
            Some(s) => write!(s, "{}", value).map_err(|_| NoAllocError),
            None => write!(Null, "{}", value).map_err(|_| NoAllocError),
        }
    }
    fn serialize_none(self) -> Result<(), NoAllocError> {
        Ok(())
    }
    fn serialize_some<T: ?Sized + Serialize>(self, v: &T) -> Result<(), NoAllocError> {
        v.serialize(self)
    }
    fn serialize_unit(self) -> Result<(), NoAllocError> {
        Ok(())
    }
    fn serialize_unit_struct(self, _n: &'static str) -> Result<(), NoAllocError> {
        Ok(())
    }
    fn serialize_unit_variant(self, _n: &'static str, _i: u32, _v: &'static str) -> Result<(), NoAllocError> {
        Ok(())
    }
    fn serialize_newtype_struct<T: ?Sized + Serialize>(self, _n: &'static str, v: &T) -> Result<(), NoAllocError> {
        v.serialize(self)
    }
    fn serialize_newtype_variant<T: ?Sized + Serialize>(self, _n: &'static str, _i: u32, _v: &'static str, _x: &T) -> Result<(), NoAllocError> {
        Err(NoAllocError)
    }
    fn serialize_seq(self, _l: Option<usize>) -> Result<Self::SerializeSeq, NoAllocError> {
        Err(NoAllocError)
    }
    fn serialize_tuple(self, _l: usize) -> Result<Self::SerializeTuple, NoAllocError> {
        Err(NoAllocError)
    }
    fn serialize_tuple_struct(self, _n: &'static str, _l: usize) -> Result<Self::SerializeTupleStruct, NoAllocError> {
        Err(NoAllocError)
    }
    fn serialize_tuple_variant(self, _n: &'static str, _i: u32, _v: &'static str, _l: usize) -> Result<Self::SerializeTupleVariant, NoAllocError> {
        Err(NoAllocError)
    }
    fn serialize_map(self, _l: Option<usize>) -> Result<Self::SerializeMap, NoAllocError> {
        Err(NoAllocError)
    }
    fn serialize_struct(self, _n: &'static str, _l: usize) -> Result<Self::SerializeStruct, NoAllocError> {
        Err(NoAllocError)
    }
    fn serialize_struct_variant(self, _n: &'static str, _i: u32, _v: &'static str, _l: usize) -> Result<Self::SerializeStructVariant, NoAllocError> {
        Err(NoAllocError)
    }
    fn is_human_readable(&self) -> bool {
        self.human
    }
}

/// The crate builds its shared formatters with once_cell (parking_lot flavour). The very
/// first use of that machinery in a process allocates parking_lot's global table
/// infallibly — third-party start-up cost, not the crate's code. A harness-side cell is
/// forced first so that this is out of the way before any allocation is refused.
static WARM_UP: once_cell::sync::Lazy<u64> = once_cell::sync::Lazy::new(|| 0xC03);

pub fn warm_up_third_party() -> u64 {
    *WARM_UP
}

pub const N_TYPES: u64 = 6;
pub const TEXTS: [&str; 6] = [
    "2024-02-29",
    "2024-02-29 13:14:15.123456",
    "13:14:15.123456",
    "+0012-03",
    "+15 13:14:15.123456",
    "2024-02-29 13:14:15",
];

/// One first-use exercise of type `ty` (0..6): serialize (human or compact), then
/// deserialize from a string. Returns normally whatever the results are.
pub fn exercise(ty: u64, human: bool) {
    macro_rules! go {
        ($t:ty, $v:expr) => {{
            let v: $t = $v;
            let _ = std::hint::black_box(v.serialize(SimSer::plain(human)));
            let d: de::value::StrDeserializer<'_, NoAllocError> = TEXTS[ty as usize].into_deserializer();
            let _ = std::hint::black_box(<$t>::deserialize(d).is_ok());
        }};
    }
    match ty {
        0 => go!(Date, Date::try_from_ymd(2024, 2, 29).unwrap()),
        1 => go!(Timestamp, Timestamp::try_from_usecs(1_709_212_455_123_456).unwrap()),
        2 => go!(Time, Time::try_from_usecs(47_655_123_456).unwrap()),
        3 => go!(IntervalYM, IntervalYM::try_from_months(147).unwrap()),
        4 => go!(IntervalDT, IntervalDT::try_from_usecs(1_343_655_123_456).unwrap()),
        _ => go!(OracleDate, OracleDate::try_from_usecs(1_709_212_455_000_000).unwrap()),
    }
}

// ---------------------------------------------------------------------------
// A value handed to the crate's visitors by "some serde data format": one primitive,
// delivered through whatever `deserialize_*` method the crate calls, by a
// deserializer that never allocates and says whether it is human-readable.
// ---------------------------------------------------------------------------

#[derive(Clone, Copy, Debug)]
pub enum Prim<'a> {
    I64(i64),
    U64(u64),
    I32(i32),
    U32(u32),
    I128(i128),
    U128(u128),
    F64(f64),
    F32(f32),
    Bool(bool),
    Str(&'a str),
    Bytes(&'a [u8]),
    Unit,
}

pub const PRIM_KINDS: [&str; 12] = ["i64", "u64", "i32", "u32", "i128", "u128", "f64", "f32", "bool", "str", "bytes", "unit"];

pub fn make_prim<'a>(kind: &str, raw: i64, f_bits: u64, text: &'a str) -> Prim<'a> {
    match kind {
        "i64" => Prim::I64(raw),
        "u64" => Prim::U64(raw as u64),
        "i32" => Prim::I32(raw as i32),
        "u32" => Prim::U32(raw as u32),
        "i128" => Prim::I128((raw as i128) << (f_bits % 65)),
        "u128" => Prim::U128((raw as u64 as u128) << (f_bits % 65)),
        "f64" => Prim::F64(f64::from_bits(f_bits)),
        "f32" => Prim::F32(f32::from_bits(f_bits as u32)),
        "bool" => Prim::Bool(raw & 1 == 1),
        "bytes" => Prim::Bytes(text.as_bytes()),
        "unit" => Prim::Unit,
        _ => Prim::Str(text),
    }
}

pub struct PrimDe<'a> {
    pub prim: Prim<'a>,
    pub human: bool,
}

impl<'de, 'a> de::Deserializer<'de> for PrimDe<'a> {
    type Error = NoAllocError;
    fn deserialize_any<V: de::Visitor<'de>>(self, v: V) -> Result<V::Value, NoAllocError> {
        match self.prim {
            Prim::I64(x) => v.visit_i64(x),
            Prim::U64(x) => v.visit_u64(x),
            Prim::I32(x) => v.visit_i32(x),
            Prim::U32(x) => v.visit_u32(x),
            Prim::I128(x) => v.visit_i128(x),
            Prim::U128(x) => v.visit_u128(x),
            Prim::F64(x) => v.visit_f64(x),
            Prim::F32(x) => v.visit_f32(x),
            Prim::Bool(x) => v.visit_bool(x),
            Prim::Str(x) => v.visit_str(x),
            Prim::Bytes(x) => v.visit_bytes(x),
            Prim::Unit => v.visit_unit(),
        }
    }
    serde::forward_to_deserialize_any! {
        bool i8 i16 i32 i64 i128 u8 u16 u32 u64 u128 f32 f64 char str string bytes byte_buf option unit
        unit_struct newtype_struct seq tuple tuple_struct map struct enum identifier ignored_any
    }
    fn is_human_readable(&self) -> bool {
        self.human
    }
}

/// Serializes the value with raw count `raw` (if it is one) through the non-allocating
/// serializer, then hands `prim` to the type's `Deserialize`. Returns an outcome class.
pub fn serde_call(ty: u64, raw: i64, prim: Prim<'_>, human: bool, sink: &mut crate::sink::FaultySink) -> &'static str {
    macro_rules! go {
        ($t:ty, $mk:expr) => {{
            if let Ok(v) = $mk {
                let v: $t = v;
                let _ = std::hint::black_box(v.serialize(SimSer { human, sink: Some(&mut *sink) }).is_ok());
            }
            match <$t>::deserialize(PrimDe { prim, human }) {
                Ok(v) => {
                    std::hint::black_box(v);
                    "ok"
                }
                Err(_) => "de::Error",
            }
        }};
    }
    match ty {
        0 => go!(Date, Date::try_from_days(raw as i32)),
        1 => go!(Timestamp, Timestamp::try_from_usecs(raw)),
        2 => go!(Time, Time::try_from_usecs(raw)),
        3 => go!(IntervalYM, IntervalYM::try_from_months(raw as i32)),
        4 => go!(IntervalDT, IntervalDT::try_from_usecs(raw)),
        _ => go!(OracleDate, OracleDate::try_from_usecs(raw)),
    }
}
