//! Allocator seam: a global allocator that can refuse allocations made by the
//! current thread while a pass is armed. Counting and refusing are per thread
//! and only active between `arm` and `disarm`.

use std::alloc::{GlobalAlloc, Layout, System};
use std::cell::Cell;

pub struct FailingAlloc;

thread_local! {
    /// number of allocation requests (alloc, alloc_zeroed, growing realloc) seen while armed
    static COUNT: Cell<u64> = const { Cell::new(0) };
    static ARMED: Cell<bool> = const { Cell::new(false) };
    /// refuse request number REFUSE_AT (0-based); u64::MAX = none
    static REFUSE_AT: Cell<u64> = const { Cell::new(u64::MAX) };
    /// keep refusing every request from REFUSE_AT on
    static PERSISTENT: Cell<bool> = const { Cell::new(false) };
    /// refuse the next request (set by the sink when its write fails)
    static REFUSE_NEXT: Cell<bool> = const { Cell::new(false) };
    static REFUSED: Cell<u64> = const { Cell::new(0) };
    /// the harness is doing something of its own inside an armed region (starting a thread):
    /// requests are neither counted nor refused
    static SUSPENDED: Cell<bool> = const { Cell::new(false) };
}

/// Suspends counting and refusing on this thread; returns the previous state for `resume`.
pub fn suspend() -> bool {
    SUSPENDED.try_with(|s| s.replace(true)).unwrap_or(false)
}

pub fn resume(prev: bool) {
    let _ = SUSPENDED.try_with(|s| s.set(prev));
}

#[inline]
fn should_refuse() -> bool {
    let armed = ARMED.try_with(|a| a.get()).unwrap_or(false);
    if !armed || SUSPENDED.try_with(|s| s.get()).unwrap_or(true) {
        return false;
    }
    let n = COUNT.with(|c| {
        let n = c.get();
        c.set(n + 1);
        n
    });
    let at = REFUSE_AT.with(|r| r.get());
    let mut refuse = n == at || (n > at && PERSISTENT.with(|p| p.get()));
    if REFUSE_NEXT.with(|r| r.get()) {
        refuse = true;
        if !PERSISTENT.with(|p| p.get()) {
            REFUSE_NEXT.with(|r| r.set(false));
        }
    }
    if refuse {
        REFUSED.with(|r| r.set(r.get() + 1));
    }
    refuse
}

unsafe impl GlobalAlloc for FailingAlloc {
    unsafe fn alloc(&self, layout: Layout) -> *mut u8 {
        if should_refuse() {
            return std::ptr::null_mut();
        }
        System.alloc(layout)
    }
    unsafe fn alloc_zeroed(&self, layout: Layout) -> *mut u8 {
        if should_refuse() {
            return std::ptr::null_mut();
        }
        System.alloc_zeroed(layout)
    }
    unsafe fn dealloc(&self, ptr: *mut u8, layout: Layout) {
        System.dealloc(ptr, layout)
    }
    unsafe fn realloc(&self, ptr: *mut u8, layout: Layout, new_size: usize) -> *mut u8 {
        if new_size > layout.size() && should_refuse() {
            return std::ptr::null_mut();
        }
        System.realloc(ptr, layout, new_size)
    }
}

/// Starts counting; `refuse_at` = index of the request to refuse (None = count only).
pub fn arm(refuse_at: Option<u64>, persistent: bool) {
    COUNT.with(|c| c.set(0));
    REFUSED.with(|c| c.set(0));
    REFUSE_AT.with(|r| r.set(refuse_at.unwrap_or(u64::MAX)));
    PERSISTENT.with(|p| p.set(persistent));
    REFUSE_NEXT.with(|r| r.set(false));
    SUSPENDED.with(|s| s.set(false));
    ARMED.with(|a| a.set(true));
}

/// Stops counting and refusing; returns (requests seen, requests refused).
pub fn disarm() -> (u64, u64) {
    ARMED.with(|a| a.set(false));
    REFUSE_NEXT.with(|r| r.set(false));
    (COUNT.with(|c| c.get()), REFUSED.with(|c| c.get()))
}

/// Called by the sink when an injected write failure fires: the next
/// allocation (the one the error path makes) is refused as well.
pub fn refuse_next(persistent: bool) {
    if ARMED.with(|a| a.get()) {
        REFUSE_NEXT.with(|r| r.set(true));
        if persistent {
            PERSISTENT.with(|p| p.set(true));
        }
    }
}
