//! The six serialisable types behind one canonical representation
//! (raw i64 = days / months / microseconds), value pools, and the documented
//! ranges coded independently of the library.

use simcore::civil::*;
use simcore::rng::Rng;

#[derive(Clone, Copy, PartialEq, Eq, Debug, PartialOrd, Ord)]
pub enum Ty {
    Date,
    Timestamp,
    Time,
    IntervalYM,
    IntervalDT,
    Oracle,
}

pub const ALL_TYPES: [Ty; 6] = [
    Ty::Date,
    Ty::Timestamp,
    Ty::Time,
    Ty::IntervalYM,
    Ty::IntervalDT,
    Ty::Oracle,
];

#[derive(Clone, Copy, PartialEq, Eq, Debug, PartialOrd, Ord)]
pub enum Codec {
    Json,
    /// bincode's convenience functions: fixed-width little-endian integers
    Bincode,
    /// `bincode::options()`: variable-length (zig-zag) integers
    BincodeVar,
    /// `bincode::options().with_fixint_encoding().with_big_endian()`
    BincodeBe,
}

impl Codec {
    pub fn is_binary(self) -> bool {
        self != Codec::Json
    }
    /// Codec of a record: half text, half one of the three bincode configurations.
    pub fn draw(rng: &mut Rng) -> Codec {
        match rng.below(8) {
            0..=3 => Codec::Json,
            4 | 5 => Codec::Bincode,
            6 => Codec::BincodeVar,
            _ => Codec::BincodeBe,
        }
    }
    /// The compact binary form of a raw count as the bincode configuration documents it
    /// (written here independently of bincode).
    pub fn expected_binary(self, raw: i64, width: usize) -> Option<Vec<u8>> {
        match self {
            Codec::Json => None,
            Codec::Bincode => Some(if width == 4 { (raw as i32).to_le_bytes().to_vec() } else { raw.to_le_bytes().to_vec() }),
            Codec::BincodeBe => Some(if width == 4 { (raw as i32).to_be_bytes().to_vec() } else { raw.to_be_bytes().to_vec() }),
            Codec::BincodeVar => {
                // zig-zag, then: < 251 one byte; else marker 251/252/253 + u16/u32/u64 little-endian
                let z: u64 = if width == 4 {
                    let v = raw as i32;
                    (((v << 1) ^ (v >> 31)) as u32) as u64
                } else {
                    ((raw << 1) ^ (raw >> 63)) as u64
                };
                Some(if z < 251 {
                    vec![z as u8]
                } else if z < (1 << 16) {
                    let mut v = vec![251u8];
                    v.extend_from_slice(&(z as u16).to_le_bytes());
                    v
                } else if z < (1 << 32) {
                    let mut v = vec![252u8];
                    v.extend_from_slice(&(z as u32).to_le_bytes());
                    v
                } else {
                    let mut v = vec![253u8];
                    v.extend_from_slice(&z.to_le_bytes());
                    v
                })
            }
        }
    }
    pub fn name(self) -> &'static str {
        match self {
            Codec::Json => "json",
            Codec::Bincode => "bincode",
            Codec::BincodeVar => "bincode_varint",
            Codec::BincodeBe => "bincode_big_endian",
        }
    }
    pub fn from_name(s: &str) -> Option<Codec> {
        match s {
            "json" => Some(Codec::Json),
            "bincode" => Some(Codec::Bincode),
            "bincode_varint" => Some(Codec::BincodeVar),
            "bincode_big_endian" => Some(Codec::BincodeBe),
            _ => None,
        }
    }
}

impl Ty {
    pub fn name(self) -> &'static str {
        match self {
            Ty::Date => "Date",
            Ty::Timestamp => "Timestamp",
            Ty::Time => "Time",
            Ty::IntervalYM => "IntervalYM",
            Ty::IntervalDT => "IntervalDT",
            Ty::Oracle => "OracleDate",
        }
    }
    pub fn from_name(s: &str) -> Option<Ty> {
        ALL_TYPES.iter().copied().find(|t| t.name() == s)
    }
    /// width in bytes of the compact binary form
    pub fn bin_width(self) -> usize {
        match self {
            Ty::Date | Ty::IntervalYM => 4,
            _ => 8,
        }
    }
    pub fn lo(self) -> i64 {
        match self {
            Ty::Date => DATE_MIN_DAYS,
            Ty::Timestamp | Ty::Oracle => TS_MIN_USECS,
            Ty::Time => 0,
            Ty::IntervalYM => -IYM_MAX_MONTHS,
            Ty::IntervalDT => -IDT_MAX_USECS,
        }
    }
    pub fn hi(self) -> i64 {
        match self {
            Ty::Date => DATE_MAX_DAYS,
            Ty::Timestamp => TS_MAX_USECS,
            Ty::Oracle => ORACLE_MAX_USECS,
            Ty::Time => USECS_PER_DAY - 1,
            Ty::IntervalYM => IYM_MAX_MONTHS,
            Ty::IntervalDT => IDT_MAX_USECS,
        }
    }
    /// documented range (whole seconds for the Oracle-style date)
    pub fn in_range(self, raw: i64) -> bool {
        raw >= self.lo() && raw <= self.hi() && (self != Ty::Oracle || raw.rem_euclid(1_000_000) == 0)
    }
}

/// A valid value of `ty` (raw count): range ends, unit boundaries, small
/// field values (day 31/32/33 of an interval, month 0 ..), log-uniform
/// magnitudes and uniform draws.
pub fn draw_value(rng: &mut Rng, ty: Ty) -> i64 {
    let (lo, hi) = (ty.lo(), ty.hi());
    const DAY: i64 = 86_400_000_000;
    let v = match rng.below(12) {
        0 => lo,
        1 => hi,
        2 => *rng.pick(&[0i64, 1, -1, lo + 1, hi - 1]),
        3 => {
            let unit = match ty {
                Ty::Date => *rng.pick(&[1i64, 7, 365, 36_524]),
                Ty::IntervalYM => 12,
                _ => *rng.pick(&[1_000_000i64, 60_000_000, 3_600_000_000, DAY, 31_536_000_000_000]),
            };
            let k = rng.range_i64(lo / unit, hi / unit);
            k.saturating_mul(unit).saturating_add(*rng.pick(&[-1i64, 0, 1]))
        }
        4 | 5 => {
            // small field values
            let sign = if rng.bool() { 1 } else { -1 };
            match ty {
                Ty::IntervalDT => {
                    let d = *rng.pick(&[0i64, 1, 9, 10, 28, 29, 30, 31, 32, 33, 34, 99, 100, 365, 366, 999, 1000, 99_999_999]);
                    sign * (d * DAY + rng.range_i64(0, DAY - 1) * rng.below(2) as i64)
                }
                Ty::IntervalYM => {
                    let y = *rng.pick(&[0i64, 1, 9, 10, 99, 100, 999, 1000, 9999, 10_000, 177_999_999]);
                    sign * (y * 12 + rng.range_i64(0, 11))
                }
                Ty::Time => *rng.pick(&[0i64, 1, 999_999, 1_000_000, 59_999_999, 60_000_000, 3_599_999_999, 3_600_000_000, 43_199_999_999, 43_200_000_000, 86_399_000_000]),
                Ty::Date | Ty::Timestamp | Ty::Oracle => {
                    // calendar corner days: month ends, leap days, year ends, first/last years
                    // (1582 and 1752: the days other calendars skip are ordinary days here)
                    let y = *rng.pick(&[1i64, 2, 4, 100, 400, 1582, 1582, 1752, 1900, 1970, 1999, 2000, 2024, 2100, 9996, 9998, 9999]);
                    let (m, d) = *rng.pick(&[
                        (1u32, 1u32), (1, 31), (2, 28), (2, 29), (3, 1), (4, 30), (6, 30), (7, 1), (12, 30), (12, 31), (10, 15), (11, 16),
                        (10, 4), (10, 5), (10, 9), (10, 14), (9, 2), (9, 3), (9, 13), (9, 14),
                    ]);
                    let d = d.min(simcore::civil::days_in_month(y, m));
                    let days = simcore::civil::days_from_civil(y, m, d);
                    if ty == Ty::Date {
                        days
                    } else {
                        days * DAY + *rng.pick(&[0i64, 1, 43_199_999_999, 43_200_000_000, 86_399_999_999, 1_800_000_000, 82_800_000_000])
                    }
                }
            }
        }
        6 | 7 => {
            // log-uniform magnitude
            let max_mag = hi.unsigned_abs().max(lo.unsigned_abs());
            let bits = 64 - max_mag.leading_zeros() as u64;
            let e = rng.below(bits.max(1));
            let mag = (1u64 << e) + rng.below(1u64 << e);
            let v = mag.min(i64::MAX as u64) as i64;
            if rng.bool() {
                v
            } else {
                -v
            }
        }
        _ => rng.range_i64(lo, hi),
    }
    .clamp(lo, hi);
    if ty == Ty::Oracle {
        (v.div_euclid(1_000_000) * 1_000_000).clamp(lo, hi)
    } else {
        v
    }
}

/// Raw integers a correct serializer may or may not have produced: range
/// limits +/-1, integer extremes, sub-second Oracle-style values.
pub fn foreign_raws(ty: Ty) -> Vec<i64> {
    let (lo, hi) = (ty.lo(), ty.hi());
    let mut v = vec![lo - 1, lo, lo + 1, hi - 1, hi, hi + 1, 0, -1, 1];
    if ty.bin_width() == 4 {
        v.extend_from_slice(&[i32::MIN as i64, i32::MAX as i64, i32::MIN as i64 + 1, i32::MAX as i64 - 1]);
    } else {
        v.extend_from_slice(&[i64::MIN, i64::MAX, i64::MIN + 1, i64::MAX - 1, i32::MAX as i64 + 1, i32::MIN as i64 - 1]);
    }
    match ty {
        Ty::Oracle => {
            v.extend_from_slice(&[1, 999_999, 1_000_001, hi + 1_000_000, hi + 999_999, lo + 500_000, TS_MAX_USECS, -1]);
        }
        Ty::Time => v.extend_from_slice(&[USECS_PER_DAY, USECS_PER_DAY + 1, -USECS_PER_DAY]),
        Ty::Timestamp => v.extend_from_slice(&[hi + USECS_PER_DAY, lo - USECS_PER_DAY]),
        _ => {}
    }
    v.sort();
    v.dedup();
    v
}

/// A raw count drawn around the range limits (steps of one unit, one second,
/// one minute, one hour, one day, on either side), among the integer
/// extremes, or anywhere in the integer type.
pub fn draw_foreign_raw(rng: &mut Rng, ty: Ty) -> i64 {
    let (lo, hi) = (ty.lo(), ty.hi());
    let wide = ty.bin_width() == 8;
    let v: i128 = match rng.below(10) {
        0 | 1 => *rng.pick(&foreign_raws(ty)) as i128,
        2..=6 => {
            let base = if rng.bool() { lo } else { hi } as i128;
            let unit: i128 = if wide {
                *rng.pick(&[1i128, 1_000, 1_000_000, 60_000_000, 3_600_000_000, 86_400_000_000])
            } else {
                *rng.pick(&[1i128, 2, 12, 365])
            };
            let k = rng.range_i64(0, 100) as i128;
            let mut d = k * unit;
            if rng.chance(1, 3) {
                d += *rng.pick(&[-1i128, 1, 999_999, -999_999]);
            }
            if rng.bool() {
                base + d
            } else {
                base - d
            }
        }
        7 => {
            // any whole second / whole day, anywhere
            let unit: i128 = if wide { *rng.pick(&[1_000_000i128, 86_400_000_000]) } else { 1 };
            (rng.next_u64() as i64 as i128) / unit * unit
        }
        _ => {
            if wide {
                rng.next_u64() as i64 as i128
            } else {
                rng.next_u64() as i32 as i128
            }
        }
    };
    if wide {
        v.clamp(i64::MIN as i128, i64::MAX as i128) as i64
    } else {
        v.clamp(i32::MIN as i128, i32::MAX as i128) as i64
    }
}

/// Human-readable payloads that no correct serializer produces.
pub fn foreign_texts(ty: Ty) -> Vec<&'static str> {
    match ty {
        Ty::Date => vec![
            "10000-01-01", "0000-12-31", "0000-01-01", "2021-02-30", "2021-13-01", "2021-00-10", "2021-01-32", "2021-01-00",
            "-2021-01-01", "2021-1-1", "2021", "2021-", "2021-01", "", " ", "9999-12-31x", "99999-12-31", "2021-02-29", "2020-02-29",
            "+2021-01-01", "2021/01/01", "2021-01-01 00:00:00", "२०२१-०१-०१", "2021-01-01\u{0}",
        ],
        Ty::Timestamp => vec![
            "10000-01-01 00:00:00.000000", "0000-12-31 23:59:59.999999", "9999-12-31 24:00:00.000000",
            "9999-12-31 23:60:00.000000", "9999-12-31 23:59:60.000000", "9999-12-31 23:59:59.9999999",
            "9999-12-31 23:59:59.999999", "2021-02-30 00:00:00.000000", "2021-01-01", "2021-01-01 12",
            "2021-01-01 12:", "2021-01-01 -1:00:00.000000", "2021-01-01 00:00:00.-00001", "2021-01-01T00:00:00.000000", "",
        ],
        Ty::Time => vec![
            "24:00:00.000000", "23:60:00.000000", "23:59:60.000000", "23:59:59.9999999", "-01:00:00.000000",
            "23", "23:", "23:59", "", "99:99:99.999999", "23:59:59.", "1:2:3.4",
        ],
        Ty::IntervalYM => vec![
            "+178000000-01", "-178000000-01", "+178000001-00", "+178000000-00", "-178000000-00", "+999999999-11",
            "-999999999-11", "+0000-12", "0000-11", "+-1-01", "", "+", "-", "+1", "+1-", "+2147483647-11", "+0001--1",
        ],
        Ty::IntervalDT => vec![
            "+100000000 00:00:00.000001", "-100000000 00:00:00.000001", "+100000001 00:00:00.000000",
            "+100000000 00:00:00.000000", "-100000000 00:00:00.000000", "+999999999 23:59:59.999999",
            "+00 24:00:00.000000", "+00 23:60:00.000000", "+00 23:59:60.000000", "+00 23:59:59.9999999", "", "+", "-", "+1",
            "+1 2", "-0 00:00:00.000000", "+00 -1:00:00.000000",
        ],
        Ty::Oracle => vec![
            "10000-01-01 00:00:00", "0000-12-31 23:59:59", "9999-12-31 24:00:00", "9999-12-31 23:59:60",
            "9999-12-31 23:59:59.5", "9999-12-31 23:59:59", "2021-01-01 00:00:00.000001", "2021-01-01", "2021-01-01 1", "",
        ],
    }
}

/// The human-readable form the property documents, rendered independently of
/// the library (None where the statement names no fixed layout).
pub fn expected_text(ty: Ty, raw: i64) -> Option<String> {
    const DAY: i64 = 86_400_000_000;
    let time = |us: i64| -> String {
        format!("{:02}:{:02}:{:02}.{:06}", us / 3_600_000_000, us / 60_000_000 % 60, us / 1_000_000 % 60, us % 1_000_000)
    };
    let date = |days: i64| -> String {
        let (y, m, d) = civil_from_days(days);
        format!("{:04}-{:02}-{:02}", y, m, d)
    };
    Some(match ty {
        Ty::Date => date(raw),
        Ty::Time => time(raw),
        Ty::Timestamp => format!("{} {}", date(raw.div_euclid(DAY)), time(raw.rem_euclid(DAY))),
        Ty::IntervalYM => {
            let m = raw.unsigned_abs();
            format!("{}{:04}-{:02}", if raw < 0 { '-' } else { '+' }, m / 12, m % 12)
        }
        Ty::IntervalDT => {
            let us = raw.unsigned_abs();
            let d = us / DAY as u64;
            let rest = (us % DAY as u64) as i64;
            if d < 32 {
                format!("{}{:02} {}", if raw < 0 { '-' } else { '+' }, d, time(rest))
            } else {
                format!("{}{} {}", if raw < 0 { '-' } else { '+' }, d, time(rest))
            }
        }
        Ty::Oracle => return None,
    })
}
