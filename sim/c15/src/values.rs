//! The six serialisable types behind one canonical representation
//! (raw i64 = days / months / microseconds), value pools, and the documented
//! ranges coded independently of the library.

use simcore::civil::*;
use simcore::rng::Rng;

#[derive(Clone, Copy, PartialEq, Eq, Debug, PartialOrd, Ord)]
pub enum Ty {
    Date,
    Timestamp,
    Time,
    IntervalYM,
    IntervalDT,
    Oracle,
}

pub const ALL_TYPES: [Ty; 6] = [
    Ty::Date,
    Ty::Timestamp,
    Ty::Time,
    Ty::IntervalYM,
    Ty::IntervalDT,
    Ty::Oracle,
];

#[derive(Clone, Copy, PartialEq, Eq, Debug, PartialOrd, Ord)]
pub enum Codec {
    Json,
    Bincode,
}

impl Codec {
    pub fn name(self) -> &'static str {
        match self {
            Codec::Json => "json",
            Codec::Bincode => "bincode",
        }
    }
    pub fn from_name(s: &str) -> Option<Codec> {
        match s {
            "json" => Some(Codec::Json),
            "bincode" => Some(Codec::Bincode),
            _ => None,
        }
    }
}

impl Ty {
    pub fn name(self) -> &'static str {
        match self {
            Ty::Date => "Date",
            Ty::Timestamp => "Timestamp",
            Ty::Time => "Time",
            Ty::IntervalYM => "IntervalYM",
            Ty::IntervalDT => "IntervalDT",
            Ty::Oracle => "OracleDate",
        }
    }
    pub fn from_name(s: &str) -> Option<Ty> {
        ALL_TYPES.iter().copied().find(|t| t.name() == s)
    }
    /// width in bytes of the compact binary form
    pub fn bin_width(self) -> usize {
        match self {
            Ty::Date | Ty::IntervalYM => 4,
            _ => 8,
        }
    }
    pub fn lo(self) -> i64 {
        match self {
            Ty::Date => DATE_MIN_DAYS,
            Ty::Timestamp | Ty::Oracle => TS_MIN_USECS,
            Ty::Time => 0,
            Ty::IntervalYM => -IYM_MAX_MONTHS,
            Ty::IntervalDT => -IDT_MAX_USECS,
        }
    }
    pub fn hi(self) -> i64 {
        match self {
            Ty::Date => DATE_MAX_DAYS,
            Ty::Timestamp => TS_MAX_USECS,
            Ty::Oracle => ORACLE_MAX_USECS,
            Ty::Time => USECS_PER_DAY - 1,
            Ty::IntervalYM => IYM_MAX_MONTHS,
            Ty::IntervalDT => IDT_MAX_USECS,
        }
    }
    /// documented range (whole seconds for the Oracle-style date)
    pub fn in_range(self, raw: i64) -> bool {
        raw >= self.lo() && raw <= self.hi() && (self != Ty::Oracle || raw.rem_euclid(1_000_000) == 0)
    }
}

/// A value inside the documented range.
pub fn draw_value(rng: &mut Rng, ty: Ty) -> i64 {
    let (lo, hi) = (ty.lo(), ty.hi());
    let v = match rng.below(10) {
        0 => lo,
        1 => hi,
        2 => *rng.pick(&[0i64, 1, -1, lo + 1, hi - 1]),
        3 => {
            // calendar / unit boundaries
            let unit = match ty {
                Ty::Date => 1,
                Ty::IntervalYM => 12,
                _ => *rng.pick(&[1_000_000i64, 60_000_000, 3_600_000_000, USECS_PER_DAY]),
            };
            let k = rng.range_i64(lo / unit, hi / unit);
            k * unit + *rng.pick(&[-1i64, 0, 1])
        }
        4 => {
            // near the epoch and year boundaries
            match ty {
                Ty::Date => days_from_civil(rng.range_i64(1, 9999), 12, 31) + rng.range_i64(0, 1),
                Ty::Timestamp | Ty::Oracle => {
                    (days_from_civil(rng.range_i64(1, 9999), 12, 31) + 1) * USECS_PER_DAY + rng.range_i64(-2_000_000, 2_000_000)
                }
                _ => rng.range_i64(-3, 3),
            }
        }
        _ => rng.range_i64(lo, hi),
    };
    let v = v.clamp(lo, hi);
    if ty == Ty::Oracle {
        (v.div_euclid(1_000_000) * 1_000_000).clamp(lo, hi)
    } else {
        v
    }
}

/// Raw integers a correct serializer may or may not have produced: range
/// limits +/-1, integer extremes, sub-second Oracle-style values.
pub fn foreign_raws(ty: Ty) -> Vec<i64> {
    let (lo, hi) = (ty.lo(), ty.hi());
    let mut v = vec![lo - 1, lo, lo + 1, hi - 1, hi, hi + 1, 0, -1, 1];
    if ty.bin_width() == 4 {
        v.extend_from_slice(&[i32::MIN as i64, i32::MAX as i64, i32::MIN as i64 + 1, i32::MAX as i64 - 1]);
    } else {
        v.extend_from_slice(&[i64::MIN, i64::MAX, i64::MIN + 1, i64::MAX - 1, i32::MAX as i64 + 1, i32::MIN as i64 - 1]);
    }
    match ty {
        Ty::Oracle => {
            v.extend_from_slice(&[1, 999_999, 1_000_001, hi + 1_000_000, hi + 999_999, lo + 500_000, TS_MAX_USECS, -1]);
        }
        Ty::Time => v.extend_from_slice(&[USECS_PER_DAY, USECS_PER_DAY + 1, -USECS_PER_DAY]),
        Ty::Timestamp => v.extend_from_slice(&[hi + USECS_PER_DAY, lo - USECS_PER_DAY]),
        _ => {}
    }
    v.sort();
    v.dedup();
    v
}

/// A raw count drawn around the range limits (steps of one unit, one second,
/// one minute, one hour, one day, on either side), among the integer
/// extremes, or anywhere in the integer type.
pub fn draw_foreign_raw(rng: &mut Rng, ty: Ty) -> i64 {
    let (lo, hi) = (ty.lo(), ty.hi());
    let wide = ty.bin_width() == 8;
    let v: i128 = match rng.below(10) {
        0 | 1 => *rng.pick(&foreign_raws(ty)) as i128,
        2..=6 => {
            let base = if rng.bool() { lo } else { hi } as i128;
            let unit: i128 = if wide {
                *rng.pick(&[1i128, 1_000, 1_000_000, 60_000_000, 3_600_000_000, 86_400_000_000])
            } else {
                *rng.pick(&[1i128, 2, 12, 365])
            };
            let k = rng.range_i64(0, 100) as i128;
            let mut d = k * unit;
            if rng.chance(1, 3) {
                d += *rng.pick(&[-1i128, 1, 999_999, -999_999]);
            }
            if rng.bool() {
                base + d
            } else {
                base - d
            }
        }
        7 => {
            // any whole second / whole day, anywhere
            let unit: i128 = if wide { *rng.pick(&[1_000_000i128, 86_400_000_000]) } else { 1 };
            (rng.next_u64() as i64 as i128) / unit * unit
        }
        _ => {
            if wide {
                rng.next_u64() as i64 as i128
            } else {
                rng.next_u64() as i32 as i128
            }
        }
    };
    if wide {
        v.clamp(i64::MIN as i128, i64::MAX as i128) as i64
    } else {
        v.clamp(i32::MIN as i128, i32::MAX as i128) as i64
    }
}

/// Human-readable payloads that no correct serializer produces.
pub fn foreign_texts(ty: Ty) -> Vec<&'static str> {
    match ty {
        Ty::Date => vec![
            "10000-01-01", "0000-12-31", "0000-01-01", "2021-02-30", "2021-13-01", "2021-00-10", "2021-01-32", "2021-01-00",
            "-2021-01-01", "2021-1-1", "2021", "2021-", "2021-01", "", " ", "9999-12-31x", "99999-12-31", "2021-02-29", "2020-02-29",
            "+2021-01-01", "2021/01/01", "2021-01-01 00:00:00", "२०२१-०१-०१", "2021-01-01\u{0}",
        ],
        Ty::Timestamp => vec![
            "10000-01-01 00:00:00.000000", "0000-12-31 23:59:59.999999", "9999-12-31 24:00:00.000000",
            "9999-12-31 23:60:00.000000", "9999-12-31 23:59:60.000000", "9999-12-31 23:59:59.9999999",
            "9999-12-31 23:59:59.999999", "2021-02-30 00:00:00.000000", "2021-01-01", "2021-01-01 12",
            "2021-01-01 12:", "2021-01-01 -1:00:00.000000", "2021-01-01 00:00:00.-00001", "2021-01-01T00:00:00.000000", "",
        ],
        Ty::Time => vec![
            "24:00:00.000000", "23:60:00.000000", "23:59:60.000000", "23:59:59.9999999", "-01:00:00.000000",
            "23", "23:", "23:59", "", "99:99:99.999999", "23:59:59.", "1:2:3.4",
        ],
        Ty::IntervalYM => vec![
            "+178000000-01", "-178000000-01", "+178000001-00", "+178000000-00", "-178000000-00", "+999999999-11",
            "-999999999-11", "+0000-12", "0000-11", "+-1-01", "", "+", "-", "+1", "+1-", "+2147483647-11", "+0001--1",
        ],
        Ty::IntervalDT => vec![
            "+100000000 00:00:00.000001", "-100000000 00:00:00.000001", "+100000001 00:00:00.000000",
            "+100000000 00:00:00.000000", "-100000000 00:00:00.000000", "+999999999 23:59:59.999999",
            "+00 24:00:00.000000", "+00 23:60:00.000000", "+00 23:59:60.000000", "+00 23:59:59.9999999", "", "+", "-", "+1",
            "+1 2", "-0 00:00:00.000000", "+00 -1:00:00.000000",
        ],
        Ty::Oracle => vec![
            "10000-01-01 00:00:00", "0000-12-31 23:59:59", "9999-12-31 24:00:00", "9999-12-31 23:59:60",
            "9999-12-31 23:59:59.5", "9999-12-31 23:59:59", "2021-01-01 00:00:00.000001", "2021-01-01", "2021-01-01 1", "",
        ],
    }
}
