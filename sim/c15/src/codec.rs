//! Encode / decode dispatch over the six types and two codecs, through
//! caller-supplied io::Write / io::Read objects (the storage seam).

use crate::values::{Codec, Ty};
use sqldatetime::{Date, IntervalDT, IntervalYM, OracleDate, Time, Timestamp};
use std::io::{Read, Write};

#[derive(Debug, Clone, PartialEq, Eq)]
pub enum Decoded {
    Ok(i64),
    Err,
    Panic(String),
}

#[derive(Debug, Clone, PartialEq, Eq)]
pub enum Encoded {
    Ok,
    Err(String),
    Panic(String),
    /// the raw value is not constructible through the checked constructor
    NotAValue,
}

thread_local! {
    pub static LAST_PANIC: std::cell::RefCell<String> = const { std::cell::RefCell::new(String::new()) };
}

pub fn install_panic_hook() {
    std::panic::set_hook(Box::new(|info| {
        let msg = format!("{}", info);
        let _ = LAST_PANIC.try_with(|p| {
            if let Ok(mut p) = p.try_borrow_mut() {
                *p = msg;
            }
        });
    }));
}

fn last_panic() -> String {
    LAST_PANIC.with(|p| p.borrow().clone())
}

fn ser<T: serde::Serialize, W: Write>(v: &T, codec: Codec, w: W) -> Result<(), String> {
    match codec {
        Codec::Json => serde_json::to_writer(w, v).map_err(|e| e.to_string()),
        Codec::Bincode => bincode::serialize_into(w, v).map_err(|e| e.to_string()),
    }
}

fn de<T: serde::de::DeserializeOwned, R: Read>(codec: Codec, r: R) -> Result<T, ()> {
    match codec {
        Codec::Json => serde_json::from_reader(r).map_err(|_| ()),
        Codec::Bincode => bincode::deserialize_from(r).map_err(|_| ()),
    }
}

pub fn encode<W: Write>(ty: Ty, raw: i64, codec: Codec, w: W) -> Encoded {
    let r = std::panic::catch_unwind(std::panic::AssertUnwindSafe(|| -> Result<Result<(), String>, ()> {
        Ok(match ty {
            Ty::Date => {
                let d = i32::try_from(raw).map_err(|_| ())?;
                ser(&Date::try_from_days(d).map_err(|_| ())?, codec, w)
            }
            Ty::Timestamp => ser(&Timestamp::try_from_usecs(raw).map_err(|_| ())?, codec, w),
            Ty::Time => ser(&Time::try_from_usecs(raw).map_err(|_| ())?, codec, w),
            Ty::IntervalYM => {
                let m = i32::try_from(raw).map_err(|_| ())?;
                ser(&IntervalYM::try_from_months(m).map_err(|_| ())?, codec, w)
            }
            Ty::IntervalDT => ser(&IntervalDT::try_from_usecs(raw).map_err(|_| ())?, codec, w),
            Ty::Oracle => ser(&OracleDate::try_from_usecs(raw).map_err(|_| ())?, codec, w),
        })
    }));
    match r {
        Ok(Ok(Ok(()))) => Encoded::Ok,
        Ok(Ok(Err(e))) => Encoded::Err(e),
        Ok(Err(())) => Encoded::NotAValue,
        Err(_) => Encoded::Panic(last_panic()),
    }
}

pub fn decode<R: Read>(ty: Ty, codec: Codec, r: R) -> Decoded {
    let res = std::panic::catch_unwind(std::panic::AssertUnwindSafe(|| -> Result<i64, ()> {
        Ok(match ty {
            Ty::Date => de::<Date, R>(codec, r)?.days() as i64,
            Ty::Timestamp => de::<Timestamp, R>(codec, r)?.usecs(),
            Ty::Time => de::<Time, R>(codec, r)?.usecs(),
            Ty::IntervalYM => de::<IntervalYM, R>(codec, r)?.months() as i64,
            Ty::IntervalDT => de::<IntervalDT, R>(codec, r)?.usecs(),
            Ty::Oracle => de::<OracleDate, R>(codec, r)?.usecs(),
        })
    }));
    match res {
        Ok(Ok(v)) => Decoded::Ok(v),
        Ok(Err(())) => Decoded::Err,
        Err(_) => Decoded::Panic(last_panic()),
    }
}

/// Decoding straight from memory (used by the at-rest fault enumeration).
pub fn decode_slice(ty: Ty, codec: Codec, bytes: &[u8]) -> Decoded {
    decode(ty, codec, bytes)
}
