//! Encode / decode dispatch over the six types and two codecs, through
//! caller-supplied io::Write / io::Read objects (the storage seam).

use crate::values::{Codec, Ty};
use sqldatetime::{Date, IntervalDT, IntervalYM, OracleDate, Time, Timestamp};
use bincode::Options;
use std::io::{Read, Write};

#[derive(Debug, Clone, PartialEq, Eq)]
pub enum Decoded {
    Ok(i64),
    Err,
    Panic(String),
}

#[derive(Debug, Clone, PartialEq, Eq)]
pub enum Encoded {
    Ok,
    Err(String),
    Panic(String),
    /// the raw value is not constructible through the checked constructor
    NotAValue,
}

thread_local! {
    pub static LAST_PANIC: std::cell::RefCell<String> = const { std::cell::RefCell::new(String::new()) };
}

pub fn install_panic_hook() {
    std::panic::set_hook(Box::new(|info| {
        let msg = format!("{}", info);
        let _ = LAST_PANIC.try_with(|p| {
            if let Ok(mut p) = p.try_borrow_mut() {
                *p = msg;
            }
        });
    }));
}

fn last_panic() -> String {
    LAST_PANIC.with(|p| p.borrow().clone())
}

fn ser<T: serde::Serialize, W: Write>(v: &T, codec: Codec, w: W) -> Result<(), String> {
    match codec {
        Codec::Json => serde_json::to_writer(w, v).map_err(|e| e.to_string()),
        Codec::Bincode => bincode::serialize_into(w, v).map_err(|e| e.to_string()),
        Codec::BincodeVar => bincode::options().serialize_into(w, v).map_err(|e| e.to_string()),
        Codec::BincodeBe => bincode::options().with_fixint_encoding().with_big_endian().serialize_into(w, v).map_err(|e| e.to_string()),
    }
}

fn de<T: serde::de::DeserializeOwned, R: Read>(codec: Codec, r: R) -> Result<T, ()> {
    match codec {
        Codec::Json => serde_json::from_reader(r).map_err(|_| ()),
        Codec::Bincode => bincode::deserialize_from(r).map_err(|_| ()),
        Codec::BincodeVar => bincode::options().deserialize_from(r).map_err(|_| ()),
        Codec::BincodeBe => bincode::options().with_fixint_encoding().with_big_endian().deserialize_from(r).map_err(|_| ()),
    }
}

pub fn encode<W: Write>(ty: Ty, raw: i64, codec: Codec, w: W) -> Encoded {
    let r = std::panic::catch_unwind(std::panic::AssertUnwindSafe(|| -> Result<Result<(), String>, ()> {
        Ok(match ty {
            Ty::Date => {
                let d = i32::try_from(raw).map_err(|_| ())?;
                ser(&Date::try_from_days(d).map_err(|_| ())?, codec, w)
            }
            Ty::Timestamp => ser(&Timestamp::try_from_usecs(raw).map_err(|_| ())?, codec, w),
            Ty::Time => ser(&Time::try_from_usecs(raw).map_err(|_| ())?, codec, w),
            Ty::IntervalYM => {
                let m = i32::try_from(raw).map_err(|_| ())?;
                ser(&IntervalYM::try_from_months(m).map_err(|_| ())?, codec, w)
            }
            Ty::IntervalDT => ser(&IntervalDT::try_from_usecs(raw).map_err(|_| ())?, codec, w),
            Ty::Oracle => ser(&OracleDate::try_from_usecs(raw).map_err(|_| ())?, codec, w),
        })
    }));
    match r {
        Ok(Ok(Ok(()))) => Encoded::Ok,
        Ok(Ok(Err(e))) => Encoded::Err(e),
        Ok(Err(())) => Encoded::NotAValue,
        // the caller's own writer panicked (injected): for the crate this is a failed write
        Err(p) if p.is::<crate::disk::InjectedWriterPanic>() => Encoded::Err("the writer panicked (injected)".to_string()),
        Err(_) => Encoded::Panic(last_panic()),
    }
}

pub fn decode<R: Read>(ty: Ty, codec: Codec, r: R) -> Decoded {
    let res = std::panic::catch_unwind(std::panic::AssertUnwindSafe(|| -> Result<i64, ()> {
        Ok(match ty {
            Ty::Date => de::<Date, R>(codec, r)?.days() as i64,
            Ty::Timestamp => de::<Timestamp, R>(codec, r)?.usecs(),
            Ty::Time => de::<Time, R>(codec, r)?.usecs(),
            Ty::IntervalYM => de::<IntervalYM, R>(codec, r)?.months() as i64,
            Ty::IntervalDT => de::<IntervalDT, R>(codec, r)?.usecs(),
            Ty::Oracle => de::<OracleDate, R>(codec, r)?.usecs(),
        })
    }));
    match res {
        Ok(Ok(v)) => Decoded::Ok(v),
        Ok(Err(())) => Decoded::Err,
        Err(_) => Decoded::Panic(last_panic()),
    }
}

/// Decoding straight from memory (used by the at-rest fault enumeration).
pub fn decode_slice(ty: Ty, codec: Codec, bytes: &[u8]) -> Decoded {
    decode(ty, codec, bytes)
}

// ---------------------------------------------------------------------------
// A minimal self-describing deserializer: hands ONE primitive of a chosen kind
// and width to the visitor, claiming to be human-readable or not. It stands
// for every data format other than serde_json text and bincode (formats that
// return integers in their stored width, floats, bytes, options, newtypes...).
// ---------------------------------------------------------------------------

use serde::de::{self, Deserializer, Visitor};

#[derive(Clone, Debug, PartialEq)]
pub enum Prim<'de> {
    I8(i8),
    I16(i16),
    I32(i32),
    I64(i64),
    I128(i128),
    U8(u8),
    U16(u16),
    U32(u32),
    U64(u64),
    U128(u128),
    F32(f32),
    F64(f64),
    Bool(bool),
    Char(char),
    Str(&'de str),
    BorrowedStr(&'de str),
    String(&'de str),
    Bytes(&'de [u8]),
    ByteBuf(&'de [u8]),
    Unit,
    None,
    SomeI64(i64),
    SomeStr(&'de str),
    NewtypeI64(i64),
    NewtypeStr(&'de str),
    Seq,
    SeqI64(i64),
    Map,
}

pub struct SimDe<'de> {
    pub prim: Prim<'de>,
    pub human: bool,
}

impl<'de> Deserializer<'de> for SimDe<'de> {
    type Error = de::value::Error;

    fn deserialize_any<V: Visitor<'de>>(self, v: V) -> Result<V::Value, Self::Error> {
        let human = self.human;
        match self.prim {
            Prim::I8(x) => v.visit_i8(x),
            Prim::I16(x) => v.visit_i16(x),
            Prim::I32(x) => v.visit_i32(x),
            Prim::I64(x) => v.visit_i64(x),
            Prim::I128(x) => v.visit_i128(x),
            Prim::U8(x) => v.visit_u8(x),
            Prim::U16(x) => v.visit_u16(x),
            Prim::U32(x) => v.visit_u32(x),
            Prim::U64(x) => v.visit_u64(x),
            Prim::U128(x) => v.visit_u128(x),
            Prim::F32(x) => v.visit_f32(x),
            Prim::F64(x) => v.visit_f64(x),
            Prim::Bool(x) => v.visit_bool(x),
            Prim::Char(x) => v.visit_char(x),
            Prim::Str(s) => v.visit_str(s),
            Prim::BorrowedStr(s) => v.visit_borrowed_str(s),
            Prim::String(s) => v.visit_string(s.to_string()),
            Prim::Bytes(b) => v.visit_bytes(b),
            Prim::ByteBuf(b) => v.visit_byte_buf(b.to_vec()),
            Prim::Unit => v.visit_unit(),
            Prim::None => v.visit_none(),
            Prim::SomeI64(x) => v.visit_some(SimDe { prim: Prim::I64(x), human }),
            Prim::SomeStr(s) => v.visit_some(SimDe { prim: Prim::Str(s), human }),
            Prim::NewtypeI64(x) => v.visit_newtype_struct(SimDe { prim: Prim::I64(x), human }),
            Prim::NewtypeStr(s) => v.visit_newtype_struct(SimDe { prim: Prim::Str(s), human }),
            Prim::Seq => v.visit_seq(de::value::SeqDeserializer::<_, Self::Error>::new(std::iter::empty::<i64>())),
            Prim::SeqI64(x) => v.visit_seq(de::value::SeqDeserializer::<_, Self::Error>::new(std::iter::once(x))),
            Prim::Map => v.visit_map(de::value::MapDeserializer::<_, Self::Error>::new(std::iter::empty::<(i64, i64)>())),
        }
    }

    fn is_human_readable(&self) -> bool {
        self.human
    }

    serde::forward_to_deserialize_any! {
        bool i8 i16 i32 i64 i128 u8 u16 u32 u64 u128 f32 f64 char str string
        bytes byte_buf option unit unit_struct newtype_struct seq tuple
        tuple_struct map struct enum identifier ignored_any
    }
}

pub fn decode_value(ty: Ty, prim: Prim<'_>, human: bool) -> Decoded {
    use serde::Deserialize;
    let res = std::panic::catch_unwind(std::panic::AssertUnwindSafe(|| -> Result<i64, ()> {
        let d = SimDe { prim, human };
        Ok(match ty {
            Ty::Date => Date::deserialize(d).map_err(|_| ())?.days() as i64,
            Ty::Timestamp => Timestamp::deserialize(d).map_err(|_| ())?.usecs(),
            Ty::Time => Time::deserialize(d).map_err(|_| ())?.usecs(),
            Ty::IntervalYM => IntervalYM::deserialize(d).map_err(|_| ())?.months() as i64,
            Ty::IntervalDT => IntervalDT::deserialize(d).map_err(|_| ())?.usecs(),
            Ty::Oracle => OracleDate::deserialize(d).map_err(|_| ())?.usecs(),
        })
    }));
    match res {
        Ok(Ok(v)) => Decoded::Ok(v),
        Ok(Err(())) => Decoded::Err,
        Err(_) => Decoded::Panic(last_panic()),
    }
}

pub const VALUE_KINDS: [&str; 28] = [
    "i8", "i16", "i32", "i64", "i128", "u8", "u16", "u32", "u64", "u128", "f32", "f64", "bool", "char", "str",
    "borrowed_str", "string", "bytes", "byte_buf", "unit", "none", "some_i64", "some_str", "newtype_i64", "newtype_str",
    "seq", "seq_i64", "map",
];

/// Builds the primitive of `kind` from a raw count (wrapping / converting as
/// the kind demands) or a text.
pub fn make_prim<'a>(kind: &str, raw: i64, text: &'a str) -> Prim<'a> {
    match kind {
        "i8" => Prim::I8(raw as i8),
        "i16" => Prim::I16(raw as i16),
        "i32" => Prim::I32(raw as i32),
        "i64" => Prim::I64(raw),
        "i128" => Prim::I128(raw as i128),
        "u8" => Prim::U8(raw as u8),
        "u16" => Prim::U16(raw as u16),
        "u32" => Prim::U32(raw as u32),
        "u64" => Prim::U64(raw as u64),
        "u128" => Prim::U128(raw as u64 as u128),
        "f32" => Prim::F32(raw as f32),
        "f64" => Prim::F64(raw as f64),
        "bool" => Prim::Bool(raw & 1 == 1),
        "char" => Prim::Char(char::from_u32((raw as u32) % 0xD800).unwrap_or('0')),
        "str" => Prim::Str(text),
        "borrowed_str" => Prim::BorrowedStr(text),
        "string" => Prim::String(text),
        "bytes" => Prim::Bytes(text.as_bytes()),
        "byte_buf" => Prim::ByteBuf(text.as_bytes()),
        "unit" => Prim::Unit,
        "none" => Prim::None,
        "some_i64" => Prim::SomeI64(raw),
        "some_str" => Prim::SomeStr(text),
        "newtype_i64" => Prim::NewtypeI64(raw),
        "newtype_str" => Prim::NewtypeStr(text),
        "seq" => Prim::Seq,
        "seq_i64" => Prim::SeqI64(raw),
        _ => Prim::Map,
    }
}


// ---------------------------------------------------------------------------
// Values produced by the crate's own arithmetic / conversions (not by the
// checked constructors) and serialized as they come.
// ---------------------------------------------------------------------------

pub const DERIVED_KINDS: [&str; 14] = [
    "Time::from(IntervalDT)",
    "Time::add_interval_dt",
    "Time::sub_interval_dt",
    "Timestamp::round_day",
    "Timestamp::trunc_day",
    "Timestamp::last_day_of_month",
    "Timestamp::add_interval_dt",
    "Date::last_day_of_month",
    "Date::add_days",
    "IntervalDT::from(Time)",
    "Time::sub_time",
    "Timestamp::sub_timestamp",
    "OracleDate::from(Timestamp)",
    "IntervalYM::neg",
];

/// Computes the derived value from valid operands `a`, `b` (raw counts of the
/// operand types of `kind`), serializes the RESULT OBJECT itself, and returns
/// (outcome, type of the result, raw count of the result).
pub fn encode_derived<W: Write>(kind: &str, a: i64, b: i64, codec: Codec, w: W) -> (Encoded, Ty, i64) {
    use sqldatetime::Round;
    use sqldatetime::Trunc;
    let r = std::panic::catch_unwind(std::panic::AssertUnwindSafe(|| -> Result<(Result<(), String>, Ty, i64), ()> {
        let e = |_| ();
        Ok(match kind {
            "Time::from(IntervalDT)" => {
                let v = Time::from(IntervalDT::try_from_usecs(a).map_err(e)?);
                (ser(&v, codec, w), Ty::Time, v.usecs())
            }
            "Time::add_interval_dt" => {
                let v = Time::try_from_usecs(a).map_err(e)?.add_interval_dt(IntervalDT::try_from_usecs(b).map_err(e)?);
                (ser(&v, codec, w), Ty::Time, v.usecs())
            }
            "Time::sub_interval_dt" => {
                let v = Time::try_from_usecs(a).map_err(e)?.sub_interval_dt(IntervalDT::try_from_usecs(b).map_err(e)?);
                (ser(&v, codec, w), Ty::Time, v.usecs())
            }
            "Timestamp::round_day" => {
                let v = Timestamp::try_from_usecs(a).map_err(e)?.round_day().map_err(e)?;
                (ser(&v, codec, w), Ty::Timestamp, v.usecs())
            }
            "Timestamp::trunc_day" => {
                let v = Timestamp::try_from_usecs(a).map_err(e)?.trunc_day().map_err(e)?;
                (ser(&v, codec, w), Ty::Timestamp, v.usecs())
            }
            "Timestamp::last_day_of_month" => {
                let v = Timestamp::try_from_usecs(a).map_err(e)?.last_day_of_month();
                (ser(&v, codec, w), Ty::Timestamp, v.usecs())
            }
            "Timestamp::add_interval_dt" => {
                let v = Timestamp::try_from_usecs(a).map_err(e)?.add_interval_dt(IntervalDT::try_from_usecs(b).map_err(e)?).map_err(e)?;
                (ser(&v, codec, w), Ty::Timestamp, v.usecs())
            }
            "Date::last_day_of_month" => {
                let v = Date::try_from_days(i32::try_from(a).map_err(|_| ())?).map_err(e)?.last_day_of_month();
                (ser(&v, codec, w), Ty::Date, v.days() as i64)
            }
            "Date::add_days" => {
                let v = Date::try_from_days(i32::try_from(a).map_err(|_| ())?).map_err(e)?.add_days(b as i32).map_err(e)?;
                (ser(&v, codec, w), Ty::Date, v.days() as i64)
            }
            "IntervalDT::from(Time)" => {
                let v = IntervalDT::from(Time::try_from_usecs(a).map_err(e)?);
                (ser(&v, codec, w), Ty::IntervalDT, v.usecs())
            }
            "Time::sub_time" => {
                let v = Time::try_from_usecs(a).map_err(e)?.sub_time(Time::try_from_usecs(b).map_err(e)?);
                (ser(&v, codec, w), Ty::IntervalDT, v.usecs())
            }
            "Timestamp::sub_timestamp" => {
                let v = Timestamp::try_from_usecs(a).map_err(e)?.sub_timestamp(Timestamp::try_from_usecs(b).map_err(e)?);
                (ser(&v, codec, w), Ty::IntervalDT, v.usecs())
            }
            "OracleDate::from(Timestamp)" => {
                let v = OracleDate::from(Timestamp::try_from_usecs(a).map_err(e)?);
                (ser(&v, codec, w), Ty::Oracle, v.usecs())
            }
            _ => {
                let v = -IntervalYM::try_from_months(i32::try_from(a).map_err(|_| ())?).map_err(e)?;
                (ser(&v, codec, w), Ty::IntervalYM, v.months() as i64)
            }
        })
    }));
    match r {
        Ok(Ok((Ok(()), ty, raw))) => (Encoded::Ok, ty, raw),
        Ok(Ok((Err(e), ty, raw))) => (Encoded::Err(e), ty, raw),
        Ok(Err(())) => (Encoded::NotAValue, Ty::Date, 0),
        Err(_) => (Encoded::Panic(last_panic()), Ty::Date, 0),
    }
}

/// Operand types of a derived kind.
pub fn derived_operands(kind: &str) -> (Ty, Ty) {
    match kind {
        "Time::from(IntervalDT)" => (Ty::IntervalDT, Ty::IntervalDT),
        "Time::add_interval_dt" | "Time::sub_interval_dt" => (Ty::Time, Ty::IntervalDT),
        "Timestamp::round_day" | "Timestamp::trunc_day" | "Timestamp::last_day_of_month" | "OracleDate::from(Timestamp)" => (Ty::Timestamp, Ty::Timestamp),
        "Timestamp::add_interval_dt" => (Ty::Timestamp, Ty::IntervalDT),
        "Date::last_day_of_month" => (Ty::Date, Ty::Date),
        "Date::add_days" => (Ty::Date, Ty::Date),
        "IntervalDT::from(Time)" => (Ty::Time, Ty::Time),
        "Time::sub_time" => (Ty::Time, Ty::Time),
        "Timestamp::sub_timestamp" => (Ty::Timestamp, Ty::Timestamp),
        _ => (Ty::IntervalYM, Ty::IntervalYM),
    }
}


// ---------------------------------------------------------------------------
// Containers: several values in ONE stream.
// ---------------------------------------------------------------------------

// Values embedded in larger structures, as application code has them. The derived
// impls drive the crate's visitors through serde's own buffering (`Content`) for
// flattened structs and tagged / untagged enums, through map-key (de)serializers, and
// through `serde_json::Value`; text arrives borrowed (`from_slice`), owned (`from_reader`)
// or escaped.

#[derive(serde::Serialize, serde::Deserialize, PartialEq, Debug, Clone)]
struct Row<T> {
    id: u32,
    v: T,
    note: String,
    w: Option<T>,
}

#[derive(serde::Serialize, serde::Deserialize, PartialEq, Debug, Clone)]
struct Inner<T> {
    v: T,
    w: Option<T>,
}

#[derive(serde::Serialize, serde::Deserialize, PartialEq, Debug, Clone)]
struct Flat<T> {
    id: u32,
    #[serde(flatten)]
    inner: Inner<T>,
}

#[derive(serde::Serialize, serde::Deserialize, PartialEq, Debug, Clone)]
#[serde(tag = "t")]
enum Tagged<T> {
    A { v: T },
    B { v: T, n: i32 },
}

#[derive(serde::Serialize, serde::Deserialize, PartialEq, Debug, Clone)]
#[serde(tag = "t", content = "c")]
enum Adjacent<T> {
    One(T),
    Two(T, T),
}

#[derive(serde::Serialize, serde::Deserialize, PartialEq, Debug, Clone)]
enum External<T> {
    One(T),
    Rec { v: T },
    Unit,
}

#[derive(serde::Serialize, serde::Deserialize, PartialEq, Debug, Clone)]
#[serde(untagged)]
enum Untagged<T> {
    Pair { a: T, b: T },
    Single(T),
}

fn rt<V>(what: &str, v: &V, codec: Codec) -> Result<(), (&'static str, String)>
where
    V: serde::Serialize + serde::de::DeserializeOwned + PartialEq + std::fmt::Debug,
{
    let mut buf: Vec<u8> = Vec::new();
    ser(v, codec, &mut buf).map_err(|e| ("serialize_failed", format!("serializing {what} failed: {e}")))?;
    let back: V = de(codec, &buf[..]).map_err(|_| ("roundtrip", format!("{what} does not decode from {}", String::from_utf8_lossy(&buf))))?;
    if &back != v {
        return Err(("roundtrip", format!("{what} {:?} came back as {:?}", v, back)));
    }
    if codec == Codec::Json {
        // borrowed text (from_slice), a serde_json::Value in between, and the same text with every
        // character of the strings escaped (so nothing can be borrowed from the input)
        let back: V = serde_json::from_slice(&buf).map_err(|e| ("roundtrip", format!("{what} does not decode from a slice: {e}")))?;
        if &back != v {
            return Err(("roundtrip", format!("{what} {:?} came back from a slice as {:?}", v, back)));
        }
        let val = serde_json::to_value(v).map_err(|e| ("serialize_failed", format!("{what} to serde_json::Value failed: {e}")))?;
        let back: V = serde_json::from_value(val).map_err(|e| ("roundtrip", format!("{what} does not decode from a serde_json::Value: {e}")))?;
        if &back != v {
            return Err(("roundtrip", format!("{what} {:?} came back through a serde_json::Value as {:?}", v, back)));
        }
        let mut esc = String::with_capacity(buf.len() * 2);
        let mut in_str = false;
        for &b in &buf {
            let c = b as char;
            if c == '"' {
                in_str = !in_str;
                esc.push(c);
            } else if in_str && (c == '+' || c == '-' || c == ':' || c == ' ') {
                esc.push_str(&format!("\\u{:04x}", b));
            } else {
                esc.push(c);
            }
        }
        let back: V = serde_json::from_str(&esc).map_err(|e| ("roundtrip", format!("{what} does not decode from {esc}: {e}")))?;
        if &back != v {
            return Err(("roundtrip", format!("{what} {:?} came back from escaped text as {:?}", v, back)));
        }
    }
    Ok(())
}

fn embedded<T>(vals: &[T], codec: Codec) -> Result<(), (&'static str, String)>
where
    T: serde::Serialize + serde::de::DeserializeOwned + PartialEq + Copy + std::fmt::Debug + Ord,
{
    let a = vals[0];
    let b = vals[vals.len() - 1];
    let c = vals[vals.len() / 2];
    rt("struct field", &Row { id: 7, v: a, note: "n".to_string(), w: Some(b) }, codec)?;
    rt("struct field", &Row { id: 8, v: b, note: String::new(), w: None }, codec)?;
    rt("externally tagged enum", &vec![External::One(a), External::Rec { v: b }, External::Unit], codec)?;
    let map: std::collections::BTreeMap<T, T> = vals.iter().map(|v| (*v, c)).collect();
    rt("map key and value", &map, codec)?;
    if codec == Codec::Json {
        // shapes that need a self-describing format
        rt("flattened struct", &Flat { id: 9, inner: Inner { v: a, w: Some(b) } }, codec)?;
        rt("flattened struct", &Flat { id: 9, inner: Inner { v: b, w: None } }, codec)?;
        rt("internally tagged enum", &vec![Tagged::A { v: a }, Tagged::B { v: b, n: -1 }], codec)?;
        rt("adjacently tagged enum", &vec![Adjacent::One(a), Adjacent::Two(b, c)], codec)?;
        rt("untagged enum", &vec![Untagged::Single(a), Untagged::Pair { a: b, b: c }], codec)?;
        let by_name: std::collections::BTreeMap<String, Option<T>> = vals.iter().enumerate().map(|(i, v)| (format!("k{i}"), if i % 2 == 0 { Some(*v) } else { None })).collect();
        rt("map of options", &by_name, codec)?;
    }
    Ok(())
}

fn table_generic<T>(vals: Vec<T>, codec: Codec) -> Result<(), (&'static str, String)>
where
    T: serde::Serialize + serde::de::DeserializeOwned + PartialEq + Copy + std::fmt::Debug + Ord,
{
    const SENTINEL: u32 = 0xA5C3_5A3C;
    let r = std::panic::catch_unwind(std::panic::AssertUnwindSafe(|| -> Result<(), (&'static str, String)> {
        // Vec<T>
        let mut buf: Vec<u8> = Vec::new();
        ser(&vals, codec, &mut buf).map_err(|e| ("serialize_failed", format!("serializing Vec failed: {e}")))?;
        let back: Vec<T> = de(codec, &buf[..]).map_err(|_| ("roundtrip", "Vec does not decode".to_string()))?;
        if back != vals {
            return Err(("roundtrip", format!("Vec came back as {:?}", back)));
        }
        // Vec<Option<T>>
        let opts: Vec<Option<T>> = vals.iter().enumerate().map(|(i, v)| if i % 3 == 2 { None } else { Some(*v) }).collect();
        let mut buf: Vec<u8> = Vec::new();
        ser(&opts, codec, &mut buf).map_err(|e| ("serialize_failed", format!("serializing Vec<Option> failed: {e}")))?;
        let back: Vec<Option<T>> = de(codec, &buf[..]).map_err(|_| ("roundtrip", "Vec<Option> does not decode".to_string()))?;
        if back != opts {
            return Err(("roundtrip", format!("Vec<Option> came back as {:?}", back)));
        }
        // (T, sentinel, T): anything out of step shows in the sentinel or the last element
        let first = vals[0];
        let last = vals[vals.len() - 1];
        let tup = (first, SENTINEL, last);
        let mut buf: Vec<u8> = Vec::new();
        ser(&tup, codec, &mut buf).map_err(|e| ("serialize_failed", format!("serializing tuple failed: {e}")))?;
        let back: (T, u32, T) = de(codec, &buf[..]).map_err(|_| ("roundtrip", "tuple (value, sentinel, value) does not decode".to_string()))?;
        if back != tup {
            return Err(("roundtrip", format!("tuple (value, sentinel, value) came back as {:?}", back)));
        }
        embedded(&vals, codec)
    }));
    match r {
        Ok(x) => x,
        Err(_) => Err(("panic", last_panic())),
    }
}

pub fn table_round_trip(ty: Ty, raws: &[i64], codec: Codec) -> Result<(), (&'static str, String)> {
    if raws.is_empty() {
        return Ok(());
    }
    macro_rules! go {
        ($mk:expr) => {{
            let mut v = Vec::new();
            for r in raws {
                match $mk(*r) {
                    Ok(x) => v.push(x),
                    Err(_) => return Ok(()),
                }
            }
            table_generic(v, codec)
        }};
    }
    match ty {
        Ty::Date => go!(|r: i64| Date::try_from_days(r as i32)),
        Ty::Timestamp => go!(Timestamp::try_from_usecs),
        Ty::Time => go!(Time::try_from_usecs),
        Ty::IntervalYM => go!(|r: i64| IntervalYM::try_from_months(r as i32)),
        Ty::IntervalDT => go!(IntervalDT::try_from_usecs),
        Ty::Oracle => go!(OracleDate::try_from_usecs),
    }
}


// ---------------------------------------------------------------------------
// A writer of the caller that uses the crate while it is being written to: an auditing or
// logging `io::Write` that stamps what passes through it with a timestamp of its own, a tee
// into a second document. Whatever the serializers keep per thread (a memo of the last
// rendering, a shared buffer, a borrowed cell) is then entered a second time from inside the
// first use.
// ---------------------------------------------------------------------------

struct NestingWriter<'a> {
    out: &'a mut Vec<u8>,
    ty: Ty,
    raw: i64,
    calls: usize,
    failed: Option<(&'static str, String)>,
}

impl NestingWriter<'_> {
    fn nested(&mut self, ty: Ty, raw: i64) {
        for codec in [Codec::Json, Codec::Bincode] {
            let mut inner = Vec::new();
            match encode(ty, raw, codec, &mut inner) {
                Encoded::Ok => match decode_slice(ty, codec, &inner) {
                    Decoded::Ok(v) if v == raw => {}
                    other => {
                        self.failed.get_or_insert(("roundtrip", format!("the nested {} ({}) value with raw count {} was written as {} and read back as {:?}", ty.name(), codec.name(), raw, show(&inner), other)));
                    }
                },
                Encoded::NotAValue => {}
                Encoded::Panic(m) => {
                    self.failed.get_or_insert(("panic", format!("serializing a {} ({}) with raw count {} from inside the writer: {}", ty.name(), codec.name(), raw, m)));
                }
                Encoded::Err(e) => {
                    self.failed.get_or_insert(("serialize_failed", format!("serializing a {} ({}) with raw count {} from inside the writer failed without any fault: {}", ty.name(), codec.name(), raw, e)));
                }
            }
        }
    }
}

fn show(b: &[u8]) -> String {
    match std::str::from_utf8(b) {
        Ok(s) => format!("{:?}", s),
        Err(_) => format!("{:02x?}", b),
    }
}

impl Write for NestingWriter<'_> {
    fn write(&mut self, buf: &[u8]) -> std::io::Result<usize> {
        self.calls += 1;
        let (ty, raw) = (self.ty, self.raw);
        self.nested(ty, raw);
        // and the zero value of every type (raw count 0 is a value of all six)
        for t in crate::values::ALL_TYPES {
            self.nested(t, 0);
        }
        self.out.extend_from_slice(buf);
        Ok(buf.len())
    }
    fn flush(&mut self) -> std::io::Result<()> {
        Ok(())
    }
}

/// The value (ty, raw) is serialized plainly and through a writer that serializes (ty, inner_raw)
/// and the zero value of every type on each of its write calls — plainly first (so that the
/// nested use is the second rendering of the same value in a row) or plainly afterwards. Both
/// renderings must be the same bytes and read back as the value; nothing may panic or fail.
pub fn nested_round_trip(ty: Ty, raw: i64, inner_raw: i64, plain_first: bool, codec: Codec) -> Result<(), (&'static str, String)> {
    let mut plain = Vec::new();
    let mut through = Vec::new();
    let mut do_plain = |plain: &mut Vec<u8>| -> Result<bool, (&'static str, String)> {
        match encode(ty, raw, codec, &mut *plain) {
            Encoded::Ok => Ok(true),
            Encoded::NotAValue => Ok(false),
            Encoded::Panic(m) => Err(("panic", m)),
            Encoded::Err(e) => Err(("serialize_failed", format!("serialization into memory failed without any fault: {}", e))),
        }
    };
    if plain_first && !do_plain(&mut plain)? {
        return Ok(());
    }
    let mut w = NestingWriter { out: &mut through, ty, raw: inner_raw, calls: 0, failed: None };
    let r = encode(ty, raw, codec, &mut w);
    let failed = w.failed.take();
    match r {
        Encoded::Ok => {}
        Encoded::NotAValue => return Ok(()),
        Encoded::Panic(m) => return Err(("panic", format!("serializing through a writer that serializes another value while it is written to: {}", m))),
        Encoded::Err(e) => return Err(("serialize_failed", format!("serialization through a writer that serializes another value while it is written to failed without any fault: {}", e))),
    }
    if let Some(f) = failed {
        return Err(f);
    }
    if !plain_first && !do_plain(&mut plain)? {
        return Ok(());
    }
    if plain != through {
        return Err(("layout", format!("written plainly: {}; written through a writer that serializes another value (raw count {}) on each write: {}", show(&plain), inner_raw, show(&through))));
    }
    match decode_slice(ty, codec, &through) {
        Decoded::Ok(v) if v == raw => Ok(()),
        other => Err(("roundtrip", format!("{} read back as {:?}", show(&through), other))),
    }
}
