//! Scenario B of C15: several caller threads use the serde impls for the
//! first time concurrently (racing on the initialisation of the shared static
//! formatters), each round-tripping its own values through JSON and bincode.
//! Run under Miri: `-Zmiri-seed=<s> -Zmiri-preemption-rate=<p>` fixes the
//! interleaving, so (s, p, workload seed) is one exactly repeatable execution.
//!
//! usage: c15_threads <workload seed> [threads]

use simcore::rng::Rng;
use sqldatetime::{Date, IntervalDT, IntervalYM, OracleDate, Time, Timestamp};

fn round_trip(rng: &mut Rng, who: usize) {
    // order of types differs per thread so that different statics are raced on
    for k in 0..6 {
        match (k + who) % 6 {
            0 => {
                let v = Date::try_from_days(rng.range_i64(-719_162, 2_932_896) as i32).unwrap();
                let s = serde_json::to_string(&v).unwrap();
                assert_eq!(serde_json::from_str::<Date>(&s).unwrap(), v, "thread {who}: Date json {s}");
                let b = bincode::serialize(&v).unwrap();
                assert_eq!(bincode::deserialize::<Date>(&b).unwrap(), v);
            }
            1 => {
                let v = Timestamp::try_from_usecs(rng.range_i64(-62_135_596_800_000_000, 253_402_300_799_999_999)).unwrap();
                let s = serde_json::to_string(&v).unwrap();
                assert_eq!(serde_json::from_str::<Timestamp>(&s).unwrap(), v, "thread {who}: Timestamp json {s}");
                let b = bincode::serialize(&v).unwrap();
                assert_eq!(bincode::deserialize::<Timestamp>(&b).unwrap(), v);
            }
            2 => {
                let v = Time::try_from_usecs(rng.range_i64(0, 86_399_999_999)).unwrap();
                let s = serde_json::to_string(&v).unwrap();
                assert_eq!(serde_json::from_str::<Time>(&s).unwrap(), v, "thread {who}: Time json {s}");
                let b = bincode::serialize(&v).unwrap();
                assert_eq!(bincode::deserialize::<Time>(&b).unwrap(), v);
            }
            3 => {
                let v = IntervalYM::try_from_months(rng.range_i64(-2_136_000_000, 2_136_000_000) as i32).unwrap();
                let s = serde_json::to_string(&v).unwrap();
                assert_eq!(serde_json::from_str::<IntervalYM>(&s).unwrap(), v, "thread {who}: IntervalYM json {s}");
                let b = bincode::serialize(&v).unwrap();
                assert_eq!(bincode::deserialize::<IntervalYM>(&b).unwrap(), v);
            }
            4 => {
                let v = IntervalDT::try_from_usecs(rng.range_i64(-8_640_000_000_000_000_000, 8_640_000_000_000_000_000)).unwrap();
                let s = serde_json::to_string(&v).unwrap();
                assert_eq!(serde_json::from_str::<IntervalDT>(&s).unwrap(), v, "thread {who}: IntervalDT json {s}");
                let b = bincode::serialize(&v).unwrap();
                assert_eq!(bincode::deserialize::<IntervalDT>(&b).unwrap(), v);
            }
            _ => {
                let us = rng.range_i64(-62_135_596_800, 253_402_300_799) * 1_000_000;
                let v = OracleDate::try_from_usecs(us).unwrap();
                let s = serde_json::to_string(&v).unwrap();
                assert_eq!(serde_json::from_str::<OracleDate>(&s).unwrap(), v, "thread {who}: OracleDate json {s}");
                let b = bincode::serialize(&v).unwrap();
                assert_eq!(bincode::deserialize::<OracleDate>(&b).unwrap(), v);
            }
        }
    }
}

/// A "batch" as real callers produce it: several values that share the same
/// calendar day (rows of one load, log records), different per thread, so that
/// anything the library remembers from one serialization to the next is
/// exercised while other threads do the same with other days.
fn same_day_batch(rng: &mut Rng, who: usize, rounds: usize) {
    const DAY: i64 = 86_400_000_000;
    let home_day = rng.range_i64(-719_162, 2_932_896);
    for r in 0..rounds {
        let ts = Timestamp::try_from_usecs(home_day * DAY + rng.range_i64(0, DAY - 1)).unwrap();
        let s = serde_json::to_string(&ts).unwrap();
        assert_eq!(serde_json::from_str::<Timestamp>(&s).unwrap(), ts, "thread {who} round {r}: Timestamp json {s}");
        let od = OracleDate::try_from_usecs(home_day * DAY + rng.range_i64(0, 86_399) * 1_000_000).unwrap();
        let s = serde_json::to_string(&od).unwrap();
        assert_eq!(serde_json::from_str::<OracleDate>(&s).unwrap(), od, "thread {who} round {r}: OracleDate json {s}");
        let d = Date::try_from_days(home_day as i32).unwrap();
        let s = serde_json::to_string(&d).unwrap();
        assert_eq!(serde_json::from_str::<Date>(&s).unwrap(), d, "thread {who} round {r}: Date json {s}");
    }
}

/// A writer that, in its first write call, waits until all `n` threads are inside their
/// writers: n serializations are in flight at the same moment, as with a thread per
/// connection streaming to slow clients.
struct GateWriter<'a> {
    buf: Vec<u8>,
    gate: &'a std::sync::Barrier,
    waited: bool,
}

impl<'a> std::io::Write for GateWriter<'a> {
    fn write(&mut self, b: &[u8]) -> std::io::Result<usize> {
        if !self.waited {
            self.waited = true;
            self.gate.wait();
        }
        // a byte at a time, so that the serializer comes back for more while the others are still writing
        let n = b.len().min(3);
        self.buf.extend_from_slice(&b[..n]);
        std::thread::yield_now();
        Ok(n)
    }
    fn flush(&mut self) -> std::io::Result<()> {
        Ok(())
    }
}

fn all_in_flight(workload: u64, n: usize) {
    let gate = std::sync::Barrier::new(n);
    std::thread::scope(|s| {
        for who in 0..n {
            let gate = &gate;
            s.spawn(move || {
                let mut rng = Rng::for_run(workload, 0xF11, who as u64);
                let ts = Timestamp::try_from_usecs(rng.range_i64(-62_135_596_800_000_000, 253_402_300_799_999_999)).unwrap();
                let d = Date::try_from_days(rng.range_i64(-719_162, 2_932_896) as i32).unwrap();
                let mut w = GateWriter { buf: Vec::new(), gate, waited: false };
                serde_json::to_writer(&mut w, &(ts, d)).expect("serializing into a healthy writer");
                let back: (Timestamp, Date) = serde_json::from_slice(&w.buf).unwrap_or_else(|e| panic!("thread {who}: {} does not decode: {e}", String::from_utf8_lossy(&w.buf)));
                assert_eq!(back, (ts, d), "thread {who}: wrote {} while {n} serializations were in flight", String::from_utf8_lossy(&w.buf));
            });
        }
    });
}

fn main() {
    let args: Vec<String> = std::env::args().collect();
    let workload: u64 = args.get(1).and_then(|s| s.parse().ok()).unwrap_or(1);
    let threads: usize = args.get(2).and_then(|s| s.parse().ok()).unwrap_or(3);
    let mut handles = Vec::new();
    for who in 0..threads {
        handles.push(std::thread::spawn(move || {
            // no real clock may be touched inside the simulation
            sqldatetime::verif_hooks::set_clock(Some(Box::new(|| {
                chrono::DateTime::from_timestamp(1_700_000_000, 0)
                    .unwrap()
                    .with_timezone(&chrono::FixedOffset::east_opt(0).unwrap())
            })));
            let mut rng = Rng::for_run(workload, 0xC15, who as u64);
            round_trip(&mut rng, who);
            same_day_batch(&mut rng, who, 3);
        }));
    }
    for h in handles {
        h.join().expect("a round trip failed on some thread");
    }
    // many serializations in flight at once
    all_in_flight(workload, 20);
}
