//! C15 — serialization round-trips; deserialization never yields an
//! out-of-range value. Deterministic simulation of a storage device carrying
//! serialized records, with write, crash, at-rest and read fault injection,
//! plus concurrent first use of the shared formatters under Miri's seeded
//! scheduler (driven from here, see `threads.rs`).
//!
//! usage: c15 --tier quick|thorough [--runs N] [--miri-seeds N] [--no-miri]
//!        c15 --replay FILE

mod codec;
mod disk;
mod values;

use codec::{Decoded, Encoded};
use disk::{DiskReader, ReadFault, SimDisk, WriteFault};
use serde_json::{json, Value};
use simcore::civil::*;
use simcore::pool::{self, Merge};
use simcore::rng::{tag, Rng};
use simcore::{Fnv, EXIT_HARNESS, EXIT_OK, EXIT_VIOLATION};
use std::collections::{BTreeMap, BTreeSet};
use values::*;

const PROPERTY: &str = "C15";

#[derive(Clone, Debug, PartialEq)]
enum Op {
    Write { ty: Ty, raw: i64, codec: Codec, fault: WriteFault },
    ForeignBin { ty: Ty, raw: i64, codec: Codec },
    ForeignText { ty: Ty, text: String },
    /// a raw JSON fragment that need not be a string (number, null, array, ...)
    ForeignJson { ty: Ty, json: String },
    /// one primitive handed to the visitor by a self-describing format other than
    /// serde_json text / bincode (see codec::SimDe)
    ForeignValue { ty: Ty, kind: String, raw: i64, text: String, human: bool },
    /// several values of one type in ONE stream (a Vec, a Vec of Options, and a tuple with a
    /// sentinel between two values), written and read back as a whole
    WriteTable { ty: Ty, raws: Vec<i64>, codec: Codec },
    /// the value is serialized plainly and through a writer of the caller that itself serializes
    /// another value of the type (and the zero value of every type) on each write call
    WriteNested { ty: Ty, raw: i64, inner_raw: i64, plain_first: bool, codec: Codec },
    /// a value RETURNED by the crate's own arithmetic / conversion is serialized as it comes
    WriteDerived { kind: String, a: i64, b: i64, codec: Codec },
    Sync,
    CrashLose,
    CrashTorn { keep: usize, fill: u8 },
    BitFlip { pos: usize, bit: u8 },
    Zero { pos: usize, len: usize },
    Dup { src: usize, dst: usize, len: usize },
    Truncate { len: usize },
    ReadAll { fault: ReadFault, eof_record: usize },
    /// a new, empty device and catalogue (boundary between two runs replayed as one history)
    NewDisk,
}

#[derive(Clone, Debug)]
struct Script {
    seed: u64,
    run: u64,
    fault_free: bool,
    enumerate: bool,
    ops: Vec<Op>,
}

#[derive(Clone, Debug)]
struct Entry {
    off: usize,
    len: usize,
    ty: Ty,
    codec: Codec,
    /// Some(raw) if produced by the library's serializer from that value
    value: Option<i64>,
    acked: bool,
    lost: bool,
    payload_kind: &'static str,
}

#[derive(Clone, Debug)]
struct Violation {
    class: &'static str,
    sig: String,
    detail: String,
}

const FAULTS: [&str; 15] = [
    "short_write", "eintr_write", "eio", "enospc", "crash_lost", "crash_torn", "bit_flip", "zeroed", "dup_sector",
    "truncate", "short_read_or_eintr_read", "early_eof", "digit_substitution", "numeric_field_substitution",
    "writer_panics",
];

#[derive(Default, Clone)]
struct Stats {
    runs: u64,
    records: u64,
    decodes: u64,
    encodes: u64,
    enumerated_decodes: u64,
    fault_configured: [u64; 15],
    fault_fired: [u64; 15],
    outcomes: BTreeMap<(Ty, Codec, &'static str), u64>,
    probes: BTreeMap<&'static str, u64>,
    max_text_len: usize,
    distinct: BTreeSet<u64>,
    batch_hash: u64,
    samples: Vec<Value>,
    violations: Vec<(u64, Script, Violation)>,
}

impl Merge for Stats {
    fn merge(&mut self, o: Self) {
        self.runs += o.runs;
        self.records += o.records;
        self.decodes += o.decodes;
        self.encodes += o.encodes;
        self.enumerated_decodes += o.enumerated_decodes;
        for i in 0..15 {
            self.fault_configured[i] += o.fault_configured[i];
            self.fault_fired[i] += o.fault_fired[i];
        }
        for (k, v) in o.outcomes {
            *self.outcomes.entry(k).or_default() += v;
        }
        for (k, v) in o.probes {
            *self.probes.entry(k).or_default() += v;
        }
        self.max_text_len = self.max_text_len.max(o.max_text_len);
        self.distinct.extend(o.distinct);
        self.batch_hash = self.batch_hash.wrapping_add(o.batch_hash);
        self.samples.extend(o.samples);
        self.samples.sort_by_key(|s| s["run"].as_u64().unwrap_or(u64::MAX));
        self.samples.truncate(2);
        self.violations.extend(o.violations);
        self.violations.sort_by_key(|v| v.0);
        self.violations.truncate(4);
    }
}

fn static_str(pool: &[&'static str], s: &str) -> Option<&'static str> {
    pool.iter().copied().find(|p| *p == s)
}

const CLASSES: [&str; 6] = ["panic", "out_of_range", "roundtrip", "serialize_failed", "layout", "other"];
const OUTCOME_NAMES: [&str; 6] = ["panic", "ok_out_of_range", "ok_other_in_range", "ok_same", "ok_in_range_damaged_or_foreign", "err"];
const PROBE_NAMES: [&str; 13] = [
    "decoded_exactly_min", "decoded_exactly_max", "raw_payload_one_past_a_limit", "raw_payload_integer_extreme",
    "oracle_payload_with_subsecond_part", "malformed_or_out_of_range_text_payload", "json_payload_that_is_not_a_string",
    "value_handed_over_by_another_format", "run_on_a_fresh_thread", "value_produced_by_arithmetic_serialized",
    "table_of_values_in_one_stream", "writer_that_serializes_while_written_to", "other",
];

impl Stats {
    fn to_json(&self) -> Value {
        json!({
            "runs": self.runs, "records": self.records, "decodes": self.decodes, "encodes": self.encodes,
            "enumerated_decodes": self.enumerated_decodes,
            "fault_configured": self.fault_configured.to_vec(), "fault_fired": self.fault_fired.to_vec(),
            "outcomes": self.outcomes.iter().map(|((t, c, w), n)| json!([t.name(), c.name(), w, n])).collect::<Vec<_>>(),
            "probes": self.probes,
            "max_text_len": self.max_text_len,
            "distinct": self.distinct.iter().collect::<Vec<_>>(),
            "batch_hash": format!("{:016x}", self.batch_hash),
            "samples": self.samples,
            "violations": self.violations.iter().map(|(i, sc, v)| json!({"index": i, "script": script_to_json(sc), "class": v.class, "sig": v.sig, "detail": v.detail})).collect::<Vec<_>>(),
        })
    }

    fn from_json(v: &Value) -> Stats {
        let u = |k: &str| v[k].as_u64().unwrap_or(0);
        let mut s = Stats {
            runs: u("runs"),
            records: u("records"),
            decodes: u("decodes"),
            encodes: u("encodes"),
            enumerated_decodes: u("enumerated_decodes"),
            max_text_len: u("max_text_len") as usize,
            batch_hash: v["batch_hash"].as_str().and_then(|h| u64::from_str_radix(h, 16).ok()).unwrap_or(0),
            ..Stats::default()
        };
        for (k, out) in [("fault_configured", &mut s.fault_configured), ("fault_fired", &mut s.fault_fired)] {
            if let Some(a) = v[k].as_array() {
                for (i, x) in a.iter().enumerate().take(15) {
                    out[i] = x.as_u64().unwrap_or(0);
                }
            }
        }
        if let Some(a) = v["outcomes"].as_array() {
            for x in a {
                let ty = Ty::from_name(x[0].as_str().unwrap_or(""));
                let codec = Codec::from_name(x[1].as_str().unwrap_or(""));
                let what = static_str(&OUTCOME_NAMES, x[2].as_str().unwrap_or(""));
                if let (Some(t), Some(c), Some(w)) = (ty, codec, what) {
                    *s.outcomes.entry((t, c, w)).or_default() += x[3].as_u64().unwrap_or(0);
                }
            }
        }
        if let Some(m) = v["probes"].as_object() {
            for (k, n) in m {
                let name = static_str(&PROBE_NAMES, k).unwrap_or("other");
                *s.probes.entry(name).or_default() += n.as_u64().unwrap_or(0);
            }
        }
        if let Some(a) = v["distinct"].as_array() {
            s.distinct.extend(a.iter().filter_map(|x| x.as_u64()));
        }
        if let Some(a) = v["samples"].as_array() {
            s.samples = a.clone();
        }
        if let Some(a) = v["violations"].as_array() {
            for x in a {
                if let Ok(sc) = script_from_json(&x["script"]) {
                    s.violations.push((
                        x["index"].as_u64().unwrap_or(0),
                        sc,
                        Violation {
                            class: static_str(&CLASSES, x["class"].as_str().unwrap_or("")).unwrap_or("other"),
                            sig: x["sig"].as_str().unwrap_or("").to_string(),
                            detail: x["detail"].as_str().unwrap_or("").to_string(),
                        },
                    ));
                }
            }
        }
        s
    }

    fn probe(&mut self, name: &'static str) {
        *self.probes.entry(name).or_default() += 1;
    }
    fn outcome(&mut self, ty: Ty, codec: Codec, what: &'static str) {
        *self.outcomes.entry((ty, codec, what)).or_default() += 1;
    }
    fn distinct(&mut self, ty: Ty, codec: Codec, fault: &str, class: u64, outcome: &str) {
        let mut h = Fnv::new();
        h.write(ty.name().as_bytes());
        h.write(codec.name().as_bytes());
        h.write(fault.as_bytes());
        h.write_u64(class);
        h.write(outcome.as_bytes());
        self.distinct.insert(h.finish());
    }
}

/// Judges one decode result. `expect` = Some(raw) when the record is an
/// acknowledged, durable, untouched product of the library's own serializer.
fn judge(
    ty: Ty,
    codec: Codec,
    payload_kind: &str,
    got: &Decoded,
    expect: Option<i64>,
    what: &str,
    stats: &mut Stats,
) -> Option<Violation> {
    match got {
        Decoded::Panic(msg) => {
            stats.outcome(ty, codec, "panic");
            Some(Violation {
                class: "panic",
                sig: format!("panic:{}:{}:{}", ty.name(), codec.name(), payload_kind),
                detail: format!("decoding {} as {} ({}) panicked: {}", what, ty.name(), codec.name(), msg),
            })
        }
        Decoded::Ok(v) => {
            if !ty.in_range(*v) {
                stats.outcome(ty, codec, "ok_out_of_range");
                return Some(Violation {
                    class: "out_of_range",
                    sig: format!("out_of_range:{}:{}:{}", ty.name(), codec.name(), payload_kind),
                    detail: format!(
                        "decoding {} as {} ({}) returned Ok with raw count {} outside the documented range [{}, {}]{}",
                        what,
                        ty.name(),
                        codec.name(),
                        v,
                        ty.lo(),
                        ty.hi(),
                        if ty == Ty::Oracle { " (whole seconds)" } else { "" }
                    ),
                });
            }
            if *v == ty.lo() {
                stats.probe("decoded_exactly_min");
            }
            if *v == ty.hi() {
                stats.probe("decoded_exactly_max");
            }
            match expect {
                Some(e) if e != *v => {
                    stats.outcome(ty, codec, "ok_other_in_range");
                    Some(Violation {
                        class: "roundtrip",
                        sig: format!("roundtrip:{}:{}", ty.name(), codec.name()),
                        detail: format!(
                            "{} ({}) value with raw count {} was serialized, acknowledged, synced and not touched by any fault, but {} decodes to {}",
                            ty.name(),
                            codec.name(),
                            e,
                            what,
                            v
                        ),
                    })
                }
                Some(_) => {
                    stats.outcome(ty, codec, "ok_same");
                    None
                }
                None => {
                    stats.outcome(ty, codec, "ok_in_range_damaged_or_foreign");
                    None
                }
            }
        }
        Decoded::Err => {
            stats.outcome(ty, codec, "err");
            match expect {
                Some(e) => Some(Violation {
                    class: "roundtrip",
                    sig: format!("roundtrip:{}:{}", ty.name(), codec.name()),
                    detail: format!(
                        "{} ({}) value with raw count {} was serialized, acknowledged, synced and not touched by any fault, but decoding {} fails",
                        ty.name(),
                        codec.name(),
                        e,
                        what
                    ),
                }),
                None => None,
            }
        }
    }
}

fn show_bytes(b: &[u8]) -> String {
    match std::str::from_utf8(b) {
        Ok(s) if s.chars().all(|c| !c.is_control()) => format!("{:?}", s),
        _ => format!("bytes {:02x?}", b),
    }
}

/// Enumerates every single at-rest fault on a clean record: each bit flip,
/// each truncation length.
fn enumerate_record(ty: Ty, codec: Codec, clean: &[u8], stats: &mut Stats) -> Option<Violation> {
    let mut buf = clean.to_vec();
    for pos in 0..clean.len() {
        for bit in 0..8u8 {
            buf[pos] ^= 1 << bit;
            let got = codec::decode_slice(ty, codec, &buf);
            stats.decodes += 1;
            stats.enumerated_decodes += 1;
            stats.fault_configured[6] += 1;
            stats.fault_fired[6] += 1;
            let oc = match &got {
                Decoded::Ok(_) => "ok",
                Decoded::Err => "err",
                Decoded::Panic(_) => "panic",
            };
            stats.distinct(ty, codec, "bit_flip", (pos.min(40) * 8 + bit as usize) as u64, oc);
            let what = format!("{} (bit {} of byte {} flipped in {})", show_bytes(&buf), bit, pos, show_bytes(clean));
            if let Some(v) = judge(ty, codec, "bit_flip", &got, None, &what, stats) {
                return Some(v);
            }
            buf[pos] ^= 1 << bit;
        }
    }
    if codec == Codec::Json {
        // every single-digit substitution
        for pos in 0..clean.len() {
            if !clean[pos].is_ascii_digit() {
                continue;
            }
            for d in b'0'..=b'9' {
                if d == clean[pos] {
                    continue;
                }
                buf[pos] = d;
                let got = codec::decode_slice(ty, codec, &buf);
                stats.decodes += 1;
                stats.enumerated_decodes += 1;
                stats.fault_configured[12] += 1;
                stats.fault_fired[12] += 1;
                let oc = match &got {
                    Decoded::Ok(_) => "ok",
                    Decoded::Err => "err",
                    Decoded::Panic(_) => "panic",
                };
                stats.distinct(ty, codec, "digit_substitution", (pos.min(40) * 10 + (d - b'0') as usize) as u64, oc);
                let what = format!("{} (digit at byte {} of {} replaced)", show_bytes(&buf), pos, show_bytes(clean));
                if let Some(v) = judge(ty, codec, "digit_substitution", &got, None, &what, stats) {
                    return Some(v);
                }
            }
            buf[pos] = clean[pos];
        }
        // every byte replaced by its code neighbours and by the punctuation that sits next
        // to the digits in ASCII (a digit test by high nibble accepts ':' .. '?')
        for pos in 0..clean.len() {
            let orig = clean[pos];
            for cand in [orig.wrapping_add(1), orig.wrapping_sub(1), b':', b';', b'<', b'=', b'>', b'?', b'/', b'.', b' ', b'+', b'-'] {
                if cand == orig {
                    continue;
                }
                buf[pos] = cand;
                let got = codec::decode_slice(ty, codec, &buf);
                stats.decodes += 1;
                stats.enumerated_decodes += 1;
                stats.fault_configured[12] += 1;
                stats.fault_fired[12] += 1;
                let oc = match &got {
                    Decoded::Ok(_) => "ok",
                    Decoded::Err => "err",
                    Decoded::Panic(_) => "panic",
                };
                stats.distinct(ty, codec, "byte_substitution", (pos.min(40) * 16 + (cand % 16) as usize) as u64, oc);
                let what = format!("{} (byte {} of {} replaced)", show_bytes(&buf), pos, show_bytes(clean));
                if let Some(v) = judge(ty, codec, "byte_substitution", &got, None, &what, stats) {
                    return Some(v);
                }
            }
            buf[pos] = orig;
        }
        // every numeric field replaced by boundary numbers of the same width, and +/- 1
        let mut start = 0;
        while start < clean.len() {
            if !clean[start].is_ascii_digit() {
                start += 1;
                continue;
            }
            let mut end = start;
            while end < clean.len() && clean[end].is_ascii_digit() {
                end += 1;
            }
            let width = end - start;
            let orig: u64 = std::str::from_utf8(&clean[start..end]).unwrap().parse().unwrap_or(0);
            let all9 = 10u64.pow(width.min(18) as u32) - 1;
            let mut cands: Vec<u64> = vec![0, 1, 12, 13, 23, 24, 28, 29, 30, 31, 32, 59, 60, 61, 99, 100, 365, 366, 999, 9999, 10000, all9, orig + 1, orig.wrapping_sub(1)];
            cands.sort();
            cands.dedup();
            // same-width boundary numbers, then fields of a DIFFERENT width
            // (longer fractions, more digits than the layout writes, one digit less)
            let orig_s = std::str::from_utf8(&clean[start..end]).unwrap().to_string();
            let mut reps: Vec<String> = cands
                .into_iter()
                .filter(|c| *c != orig && *c <= all9)
                .map(|c| format!("{:0width$}", c, width = width))
                .collect();
            for extra in ["0", "5", "9", "95", "999"] {
                reps.push(format!("{}{}", orig_s, extra));
            }
            for k in 1..=3 {
                reps.push("9".repeat(width + k));
            }
            reps.push(format!("{}5", "9".repeat(width)));
            reps.push(format!("{}5", "9".repeat(width + 1)));
            reps.push("0".repeat(width + 1));
            if width > 1 {
                reps.push(orig_s[..width - 1].to_string());
                reps.push("9".repeat(width - 1));
            }
            for (ci, rep) in reps.into_iter().enumerate() {
                let c = ci as u64;
                let mut b2 = clean[..start].to_vec();
                b2.extend_from_slice(rep.as_bytes());
                b2.extend_from_slice(&clean[end..]);
                let got = codec::decode_slice(ty, codec, &b2);
                stats.decodes += 1;
                stats.enumerated_decodes += 1;
                stats.fault_configured[13] += 1;
                stats.fault_fired[13] += 1;
                let oc = match &got {
                    Decoded::Ok(_) => "ok",
                    Decoded::Err => "err",
                    Decoded::Panic(_) => "panic",
                };
                stats.distinct(ty, codec, "numeric_field_substitution", (start.min(40) * 40 + (c % 40) as usize) as u64, oc);
                let what = format!("{} (numeric field at bytes {}..{} of {} replaced)", show_bytes(&b2), start, end, show_bytes(clean));
                if let Some(v) = judge(ty, codec, "numeric_field_substitution", &got, None, &what, stats) {
                    return Some(v);
                }
            }
            start = end;
        }
    }
    for len in 0..clean.len() {
        let got = codec::decode_slice(ty, codec, &clean[..len]);
        stats.decodes += 1;
        stats.enumerated_decodes += 1;
        stats.fault_configured[9] += 1;
        stats.fault_fired[9] += 1;
        let oc = match &got {
            Decoded::Ok(_) => "ok",
            Decoded::Err => "err",
            Decoded::Panic(_) => "panic",
        };
        stats.distinct(ty, codec, "truncate", len.min(40) as u64, oc);
        let what = format!("{} (truncated to {} of {} bytes)", show_bytes(&clean[..len]), len, clean.len());
        if let Some(v) = judge(ty, codec, "truncate", &got, None, &what, stats) {
            return Some(v);
        }
    }
    None
}

struct World {
    disk: SimDisk,
    cat: Vec<Entry>,
}

fn exec_op(op: &Op, w: &mut World, enumerate: bool, stats: &mut Stats, log: &mut Fnv) -> Option<Violation> {
    match op {
        Op::Write { ty, raw, codec, fault } => {
            let off = w.disk.data.len();
            let mut wr = w.disk.writer(*fault);
            let res = codec::encode(*ty, *raw, *codec, &mut wr);
            let fired = wr.fault_fired;
            stats.encodes += 1;
            let fi = match fault {
                WriteFault::None => None,
                WriteFault::Short { .. } => Some(0),
                WriteFault::Eintr { .. } => Some(1),
                WriteFault::Eio { .. } => Some(2),
                WriteFault::Enospc { .. } => Some(3),
                WriteFault::Panic { .. } => Some(14),
            };
            if let Some(i) = fi {
                stats.fault_configured[i] += 1;
                if fired {
                    stats.fault_fired[i] += 1;
                }
            }
            let len = w.disk.data.len() - off;
            log.write(b"w");
            log.write_i64(*raw);
            log.write_u64(len as u64);
            match res {
                Encoded::Ok => {
                    stats.records += 1;
                    if *codec == Codec::Json {
                        stats.max_text_len = stats.max_text_len.max(len.saturating_sub(2));
                    }
                    let clean: Vec<u8> = w.disk.data[off..off + len].to_vec();
                    w.cat.push(Entry {
                        off,
                        len,
                        ty: *ty,
                        codec: *codec,
                        value: Some(*raw),
                        acked: true,
                        lost: false,
                        payload_kind: "serialized",
                    });
                    if matches!(*codec, Codec::Bincode | Codec::BincodeBe) && len != ty.bin_width() {
                        return Some(Violation {
                            class: "roundtrip",
                            sig: format!("binary_width:{}", ty.name()),
                            detail: format!("{} serialized to {} bytes in the compact binary form, expected the raw {}-byte count", ty.name(), len, ty.bin_width()),
                        });
                    }
                    // the documented forms themselves, not just "it reads back"
                    if !fired {
                        if let Some(want) = codec.expected_binary(*raw, ty.bin_width()) {
                            if clean != want {
                                return Some(Violation {
                                    class: "layout",
                                    sig: format!("binary_form:{}", ty.name()),
                                    detail: format!("{} with raw count {} serialized in the compact binary form ({}) as {:02x?}, expected the raw count {:02x?}", ty.name(), raw, codec.name(), clean, want),
                                });
                            }
                        } else if let Some(text) = expected_text(*ty, *raw) {
                            let want = format!("\"{}\"", text);
                            if clean != want.as_bytes() {
                                return Some(Violation {
                                    class: "layout",
                                    sig: format!("text_form:{}", ty.name()),
                                    detail: format!("{} with raw count {} serialized in the human-readable form as {}, the documented fixed layout gives {}", ty.name(), raw, show_bytes(&clean), want),
                                });
                            }
                        }
                    }
                    if enumerate {
                        // immediate fault-free read-back, then every single at-rest fault
                        let got = codec::decode_slice(*ty, *codec, &clean);
                        stats.decodes += 1;
                        let what = show_bytes(&clean);
                        if let Some(v) = judge(*ty, *codec, "serialized", &got, Some(*raw), &what, stats) {
                            return Some(v);
                        }
                        if let Some(v) = enumerate_record(*ty, *codec, &clean, stats) {
                            return Some(v);
                        }
                    }
                    None
                }
                Encoded::Err(e) => {
                    log.write(b"werr");
                    w.cat.push(Entry {
                        off,
                        len,
                        ty: *ty,
                        codec: *codec,
                        value: Some(*raw),
                        acked: false,
                        lost: false,
                        payload_kind: "partial",
                    });
                    if !fired {
                        return Some(Violation {
                            class: "serialize_failed",
                            sig: format!("serialize_failed:{}:{}", ty.name(), codec.name()),
                            detail: format!(
                                "serializing {} with raw count {} as {} failed although no write fault was injected: {}",
                                ty.name(),
                                raw,
                                codec.name(),
                                e
                            ),
                        });
                    }
                    None
                }
                Encoded::Panic(msg) => Some(Violation {
                    class: "panic",
                    sig: format!("panic_serialize:{}:{}", ty.name(), codec.name()),
                    detail: format!("serializing {} raw {} as {} panicked: {}", ty.name(), raw, codec.name(), msg),
                }),
                Encoded::NotAValue => None,
            }
        }
        Op::ForeignBin { ty, raw, codec } => {
            let off = w.disk.data.len();
            let bytes: Vec<u8> = codec.expected_binary(*raw, ty.bin_width()).unwrap_or_default();
            w.disk.data.extend_from_slice(&bytes);
            w.disk.damaged.resize(w.disk.data.len(), false);
            w.cat.push(Entry {
                off,
                len: bytes.len(),
                ty: *ty,
                codec: *codec,
                value: None,
                acked: true,
                lost: false,
                payload_kind: "foreign_raw",
            });
            stats.records += 1;
            if *raw == ty.lo() - 1 || *raw == ty.hi() + 1 {
                stats.probe("raw_payload_one_past_a_limit");
            }
            if *raw == i64::MAX || *raw == i64::MIN || *raw == i32::MAX as i64 || *raw == i32::MIN as i64 {
                stats.probe("raw_payload_integer_extreme");
            }
            if *ty == Ty::Oracle && raw.rem_euclid(1_000_000) != 0 {
                stats.probe("oracle_payload_with_subsecond_part");
            }
            log.write(b"fb");
            log.write_i64(*raw);
            None
        }
        Op::ForeignText { ty, text } => {
            let off = w.disk.data.len();
            let bytes = serde_json::to_vec(text).expect("json string");
            w.disk.data.extend_from_slice(&bytes);
            w.disk.damaged.resize(w.disk.data.len(), false);
            w.cat.push(Entry {
                off,
                len: bytes.len(),
                ty: *ty,
                codec: Codec::Json,
                value: None,
                acked: true,
                lost: false,
                payload_kind: "foreign_text",
            });
            stats.records += 1;
            stats.probe("malformed_or_out_of_range_text_payload");
            log.write(b"ft");
            log.write(text.as_bytes());
            None
        }
        Op::WriteTable { ty, raws, codec } => {
            stats.encodes += 1;
            stats.decodes += 1;
            stats.probe("table_of_values_in_one_stream");
            log.write(b"wt");
            for r in raws {
                log.write_i64(*r);
            }
            match codec::table_round_trip(*ty, raws, *codec) {
                Ok(()) => None,
                Err((class, msg)) => Some(Violation {
                    class,
                    sig: format!("table:{}:{}:{}", class, ty.name(), codec.name()),
                    detail: format!("{} values {:?} in one {} stream: {}", ty.name(), raws, codec.name(), msg),
                }),
            }
        }
        Op::WriteNested { ty, raw, inner_raw, plain_first, codec } => {
            stats.encodes += 2;
            stats.decodes += 1;
            stats.probe("writer_that_serializes_while_written_to");
            log.write(b"wn");
            log.write_i64(*raw);
            log.write_i64(*inner_raw);
            match codec::nested_round_trip(*ty, *raw, *inner_raw, *plain_first, *codec) {
                Ok(()) => None,
                Err((class, msg)) => Some(Violation {
                    class,
                    sig: format!("nested_writer:{}:{}:{}", class, ty.name(), codec.name()),
                    detail: format!(
                        "{} with raw count {} ({}) serialized {} through a writer of the caller that serializes a {} with raw count {} and the zero value of every type on each write call: {}",
                        ty.name(), raw, codec.name(), if *plain_first { "plainly and then again" } else { "first" }, ty.name(), inner_raw, msg
                    ),
                }),
            }
        }
        Op::WriteDerived { kind, a, b, codec } => {
            let off = w.disk.data.len();
            let mut wr = w.disk.writer(WriteFault::None);
            let (res, ty, raw) = codec::encode_derived(kind, *a, *b, *codec, &mut wr);
            stats.encodes += 1;
            let len = w.disk.data.len() - off;
            log.write(b"wd");
            log.write(kind.as_bytes());
            log.write_i64(raw);
            match res {
                Encoded::Ok => {
                    stats.records += 1;
                    stats.probe("value_produced_by_arithmetic_serialized");
                    w.cat.push(Entry { off, len, ty, codec: *codec, value: Some(raw), acked: true, lost: false, payload_kind: "derived" });
                    // immediate read-back: what the crate itself produced must come back
                    let clean: Vec<u8> = w.disk.data[off..off + len].to_vec();
                    let got = codec::decode_slice(ty, *codec, &clean);
                    stats.decodes += 1;
                    let what = format!("{} = value returned by {} (operands {} , {})", show_bytes(&clean), kind, a, b);
                    judge(ty, *codec, "derived", &got, Some(raw), &what, stats)
                }
                Encoded::Err(e) => Some(Violation {
                    class: "serialize_failed",
                    sig: format!("serialize_failed:derived:{}", kind),
                    detail: format!("serializing the value returned by {} (operands {}, {}) as {} failed: {}", kind, a, b, codec.name(), e),
                }),
                Encoded::Panic(msg) => Some(Violation {
                    class: "panic",
                    sig: format!("panic_serialize:derived:{}", kind),
                    detail: format!("serializing the value returned by {} (operands {}, {}) as {} panicked: {}", kind, a, b, codec.name(), msg),
                }),
                Encoded::NotAValue => None,
            }
        }
        Op::ForeignJson { ty, json } => {
            let off = w.disk.data.len();
            w.disk.data.extend_from_slice(json.as_bytes());
            w.disk.damaged.resize(w.disk.data.len(), false);
            w.cat.push(Entry {
                off,
                len: json.len(),
                ty: *ty,
                codec: Codec::Json,
                value: None,
                acked: true,
                lost: false,
                payload_kind: "foreign_json",
            });
            stats.records += 1;
            stats.probe("json_payload_that_is_not_a_string");
            log.write(b"fj");
            log.write(json.as_bytes());
            None
        }
        Op::ForeignValue { ty, kind, raw, text, human } => {
            let prim = codec::make_prim(kind, *raw, text);
            let got = codec::decode_value(*ty, prim, *human);
            stats.decodes += 1;
            stats.probe("value_handed_over_by_another_format");
            let oc = match &got {
                Decoded::Ok(_) => "ok",
                Decoded::Err => "err",
                Decoded::Panic(_) => "panic",
            };
            let kind_id = codec::VALUE_KINDS.iter().position(|k| k == kind).unwrap_or(99) as u64;
            stats.distinct(*ty, if *human { Codec::Json } else { Codec::Bincode }, "foreign_value", kind_id, oc);
            log.write(b"fv");
            log.write(kind.as_bytes());
            log.write_i64(*raw);
            log.write(text.as_bytes());
            let what = format!("{} value (raw {} / text {:?}) handed over by a {} format", kind, raw, text, if *human { "human-readable" } else { "binary" });
            judge(*ty, if *human { Codec::Json } else { Codec::Bincode }, "foreign_value", &got, None, &what, stats)
        }
        Op::NewDisk => {
            w.disk = SimDisk::default();
            w.cat.clear();
            log.write(b"nd");
            None
        }
        Op::Sync => {
            w.disk.sync();
            log.write(b"s");
            None
        }
        Op::CrashLose => {
            let synced = w.disk.synced;
            let had_tail = w.disk.data.len() > synced;
            w.disk.crash_lose_tail();
            for e in w.cat.iter_mut() {
                if e.off + e.len > synced {
                    e.lost = true;
                }
            }
            stats.fault_configured[4] += 1;
            if had_tail {
                stats.fault_fired[4] += 1;
            }
            log.write(b"cl");
            None
        }
        Op::CrashTorn { keep, fill } => {
            let synced = w.disk.synced;
            let had_tail = w.disk.data.len() > synced;
            let stale: Vec<u8> = w.disk.data[..synced.min(64)].to_vec();
            w.disk.crash_torn(*keep, *fill, &stale);
            for e in w.cat.iter_mut() {
                if e.off + e.len > synced {
                    e.lost = true;
                }
            }
            stats.fault_configured[5] += 1;
            if had_tail {
                stats.fault_fired[5] += 1;
            }
            log.write(b"ct");
            None
        }
        Op::BitFlip { pos, bit } => {
            stats.fault_configured[6] += 1;
            if w.disk.flip_bit(*pos, *bit) {
                stats.fault_fired[6] += 1;
            }
            log.write(b"bf");
            None
        }
        Op::Zero { pos, len } => {
            stats.fault_configured[7] += 1;
            if w.disk.zero(*pos, *len) > 0 {
                stats.fault_fired[7] += 1;
            }
            log.write(b"z");
            None
        }
        Op::Dup { src, dst, len } => {
            stats.fault_configured[8] += 1;
            if w.disk.dup_sector(*src, *dst, *len) > 0 {
                stats.fault_fired[8] += 1;
            }
            log.write(b"d");
            None
        }
        Op::Truncate { len } => {
            stats.fault_configured[9] += 1;
            if *len < w.disk.data.len() {
                stats.fault_fired[9] += 1;
            }
            w.disk.truncate(*len);
            log.write(b"t");
            None
        }
        Op::ReadAll { fault, eof_record } => {
            // restart: everything that was not synced is whatever the crash left; read every record
            for (i, e) in w.cat.iter().enumerate() {
                let (slice, touched) = w.disk.record(e.off, e.len);
                let mut rf = *fault;
                if i != *eof_record {
                    rf.early_eof = usize::MAX;
                }
                let mut rd = DiskReader::new(slice, rf);
                let got = codec::decode(e.ty, e.codec, &mut rd);
                stats.decodes += 1;
                if fault.max != usize::MAX || fault.eintr_every != 0 {
                    stats.fault_configured[10] += 1;
                    if rd.short_fired > 0 || rd.eintr_fired > 0 {
                        stats.fault_fired[10] += 1;
                    }
                }
                if i == *eof_record && fault.early_eof != usize::MAX {
                    stats.fault_configured[11] += 1;
                    if rd.eof_fired {
                        stats.fault_fired[11] += 1;
                    }
                }
                let clean = e.acked && !e.lost && !touched && !rd.eof_fired;
                let expect = if clean { e.value } else { None };
                match &got {
                    Decoded::Ok(v) => {
                        log.write(b"ok");
                        log.write_i64(*v);
                    }
                    Decoded::Err => log.write(b"er"),
                    Decoded::Panic(_) => log.write(b"pa"),
                }
                if !clean {
                    let oc = match &got {
                        Decoded::Ok(_) => "ok",
                        Decoded::Err => "err",
                        Decoded::Panic(_) => "panic",
                    };
                    let kind = if e.lost {
                        "crash"
                    } else if rd.eof_fired {
                        "early_eof"
                    } else if !e.acked {
                        "failed_write"
                    } else {
                        "at_rest"
                    };
                    stats.distinct(e.ty, e.codec, kind, slice.len().min(40) as u64, oc);
                }
                let what = format!("record #{} = {}", i, show_bytes(slice));
                if let Some(v) = judge(e.ty, e.codec, e.payload_kind, &got, expect, &what, stats) {
                    return Some(v);
                }
                // a failed read is retried at once (what callers do): the second attempt is
                // judged like the first
                if matches!(got, Decoded::Err) {
                    let mut rd2 = DiskReader::new(slice, ReadFault::NONE);
                    let again = codec::decode(e.ty, e.codec, &mut rd2);
                    stats.decodes += 1;
                    let what_retry = format!("record #{} = {} (second attempt right after a failed first one)", i, show_bytes(slice));
                    if let Some(v) = judge(e.ty, e.codec, "retry", &again, None, &what_retry, stats) {
                        return Some(v);
                    }
                }
                // the same bytes handed to the decoder of every OTHER type, right after:
                // may fail or give an in-range value, never an out-of-range one
                for other in ALL_TYPES {
                    if other == e.ty {
                        continue;
                    }
                    let got2 = codec::decode_slice(other, e.codec, slice);
                    stats.decodes += 1;
                    let oc = match &got2 {
                        Decoded::Ok(_) => "ok",
                        Decoded::Err => "err",
                        Decoded::Panic(_) => "panic",
                    };
                    stats.distinct(other, e.codec, "cross_type", e.ty as u64, oc);
                    let what2 = format!("record #{} = {} (written as {})", i, show_bytes(slice), e.ty.name());
                    if let Some(v) = judge(other, e.codec, "cross_type", &got2, None, &what2, stats) {
                        return Some(v);
                    }
                }
            }
            None
        }
    }
}

fn run_script(s: &Script, stats: &mut Stats) -> (Option<(usize, Violation)>, u64) {
    let mut w = World {
        disk: SimDisk::default(),
        cat: Vec::new(),
    };
    let mut log = Fnv::new();
    for (i, op) in s.ops.iter().enumerate() {
        if let Some(v) = exec_op(op, &mut w, s.enumerate, stats, &mut log) {
            return (Some((i, v)), log.finish());
        }
    }
    (None, log.finish())
}

fn draw_write_fault(rng: &mut Rng) -> WriteFault {
    match rng.below(10) {
        0 => WriteFault::Short { max: 1 + rng.usize_below(5) },
        1 => WriteFault::Eintr { nth: 1 + rng.usize_below(4) },
        2 => WriteFault::Eio { at: rng.usize_below(30) },
        3 => WriteFault::Enospc { at: rng.usize_below(30) },
        4 => WriteFault::Panic { nth: 1 + rng.usize_below(3) },
        _ => WriteFault::None,
    }
}

/// Generates and executes one run (generation sees the disk so that fault
/// positions land inside written data), recording the materialised script.
// ---------------------------------------------------------------------------
// Thread-exit probe: a run that executes on a thread of its own registers, BEFORE the
// thread touches the crate, a thread-local of the harness whose destructor round-trips
// one value of every type (a per-thread batch flushed at thread exit does that). It is
// destroyed after whatever per-thread state the crate itself keeps.
// ---------------------------------------------------------------------------

static EXIT_PROBE_FAILURE: std::sync::Mutex<Option<String>> = std::sync::Mutex::new(None);

struct ExitProbe;

impl Drop for ExitProbe {
    fn drop(&mut self) {
        let r = std::panic::catch_unwind(|| -> Result<(), String> {
            use sqldatetime::{Date, IntervalDT, IntervalYM, OracleDate, Time, Timestamp};
            macro_rules! rt {
                ($t:ty, $v:expr) => {{
                    let v: $t = $v.map_err(|_| "probe value".to_string())?;
                    let s = serde_json::to_string(&v).map_err(|e| format!("serializing a {} as JSON failed: {}", stringify!($t), e))?;
                    let back: $t = serde_json::from_str(&s).map_err(|e| format!("{} {} does not decode: {}", stringify!($t), s, e))?;
                    if back != v {
                        return Err(format!("{} {} decodes to another value", stringify!($t), s));
                    }
                    let b = bincode::serialize(&v).map_err(|e| format!("serializing a {} with bincode failed: {}", stringify!($t), e))?;
                    let back: $t = bincode::deserialize(&b).map_err(|e| format!("{} {:02x?} does not decode: {}", stringify!($t), b, e))?;
                    if back != v {
                        return Err(format!("{} {:02x?} decodes to another value", stringify!($t), b));
                    }
                }};
            }
            rt!(Date, Date::try_from_ymd(2024, 2, 29));
            rt!(Timestamp, Timestamp::try_from_usecs(1_709_212_455_123_456));
            rt!(Time, Time::try_from_usecs(47_655_123_456));
            rt!(IntervalYM, IntervalYM::try_from_months(-147));
            rt!(IntervalDT, IntervalDT::try_from_usecs(-1_343_655_123_456));
            rt!(OracleDate, OracleDate::try_from_usecs(1_709_212_455_000_000));
            Ok(())
        });
        let failure = match r {
            Ok(Ok(())) => None,
            Ok(Err(e)) => Some(e),
            Err(_) => Some("panic".to_string()),
        };
        if let (Some(f), Ok(mut g)) = (failure, EXIT_PROBE_FAILURE.lock()) {
            *g = Some(f);
        }
    }
}

thread_local! {
    static EXIT_PROBE: ExitProbe = const { ExitProbe };
}

/// Runs `f` on a thread of its own with the exit probe registered first; returns f's result
/// and what the probe found when the thread ended.
fn on_fresh_thread<R: Send>(f: impl FnOnce() -> R + Send) -> (R, Option<Violation>) {
    if let Ok(mut g) = EXIT_PROBE_FAILURE.lock() {
        *g = None;
    }
    let r = std::thread::scope(|s| {
        s.spawn(|| {
            EXIT_PROBE.with(|_| {});
            f()
        })
        .join()
        .expect("harness thread")
    });
    let failure = EXIT_PROBE_FAILURE.lock().ok().and_then(|mut g| g.take());
    let v = failure.map(|f| Violation {
        class: "roundtrip",
        sig: "thread_exit_roundtrip".to_string(),
        detail: format!("after this run, at thread exit (from a thread-local destructor registered before the thread first used the crate, no fault injected): {}", f),
    });
    (r, v)
}

fn simulate_run(seed: u64, run: u64, fault_free: bool, stats: &mut Stats) -> (Script, Option<Violation>) {
    let mut rng = Rng::for_run(seed, if fault_free { tag("C15-clean") } else { tag("C15-fault") }, run);
    let mut w = World {
        disk: SimDisk::default(),
        cat: Vec::new(),
    };
    let mut log = Fnv::new();
    let mut ops: Vec<Op> = Vec::new();
    let enumerate = !fault_free && rng.chance(1, 3);
    let n_records = 1 + rng.usize_below(24);
    // swarm: which fault kinds this run uses
    let use_write_faults = !fault_free && rng.chance(1, 2);
    let use_crash = !fault_free && rng.chance(1, 2);
    let use_at_rest = !fault_free && rng.chance(2, 3);
    let use_read_faults = !fault_free && rng.chance(1, 2);
    let use_foreign = !fault_free && rng.chance(1, 2);
    let sync_rate = *rng.pick(&[1u64, 3, 10]);
    let mut found: Option<Violation> = None;
    let mut last_written: Option<(Ty, i64)> = None;

    macro_rules! step {
        ($op:expr) => {{
            let op = $op;
            ops.push(op.clone());
            if let Some(v) = exec_op(&op, &mut w, enumerate, stats, &mut log) {
                found = Some(v);
            }
        }};
    }

    'gen: {
        let crash_after = if use_crash { rng.usize_below(n_records + 1) } else { usize::MAX };
        for i in 0..n_records {
            if i == crash_after {
                if rng.bool() {
                    step!(Op::CrashLose);
                } else {
                    let tail = w.disk.data.len() - w.disk.synced;
                    step!(Op::CrashTorn { keep: rng.usize_below(tail + 1), fill: rng.below(3) as u8 });
                }
                if found.is_some() {
                    break 'gen;
                }
            }
            let ty = match &last_written {
                Some((lt, _)) if rng.chance(1, 3) => *lt,
                _ => *rng.pick(&ALL_TYPES),
            };
            if use_foreign && rng.chance(1, 8) {
                // a value delivered by some other self-describing format
                let kind = rng.pick(&codec::VALUE_KINDS).to_string();
                let text = match rng.below(3) {
                    0 => rng.pick(&foreign_texts(ty)).to_string(),
                    _ => {
                        let mut b: Vec<u8> = Vec::new();
                        let _ = codec::encode(ty, draw_value(&mut rng, ty), Codec::Json, &mut b);
                        String::from_utf8_lossy(&b).trim_matches('"').to_string()
                    }
                };
                let raw = if rng.bool() { draw_foreign_raw(&mut rng, ty) } else { draw_value(&mut rng, ty) };
                step!(Op::ForeignValue { ty, kind, raw, text, human: rng.bool() });
            } else if use_foreign && rng.chance(1, 8) {
                let raw = if rng.bool() { draw_foreign_raw(&mut rng, ty) } else { draw_value(&mut rng, ty) };
                let json = match rng.below(12) {
                    0 | 1 | 2 => format!("{}", raw),
                    3 | 4 => format!("{:e}", raw as f64),
                    5 => format!("{}.0", raw),
                    6 => format!("{}.5", raw),
                    7 => (*rng.pick(&["null", "true", "false", "[]", "{}", "[1]", "{\"days\":1}", "1e400", "-1e400", "-0.0", "0", "\"\""])).to_string(),
                    8 => format!("[{}]", raw),
                    9 => format!("\"{}\"", raw),
                    _ => {
                        // a correct text with its first character written as a \u escape
                        let mut b: Vec<u8> = Vec::new();
                        let _ = codec::encode(ty, draw_value(&mut rng, ty), Codec::Json, &mut b);
                        let t = String::from_utf8_lossy(&b).trim_matches('"').to_string();
                        match t.chars().next() {
                            Some(c) => format!("\"\\u{:04x}{}\"", c as u32, &t[c.len_utf8()..]),
                            None => "\"\"".to_string(),
                        }
                    }
                };
                step!(Op::ForeignJson { ty, json });
            } else if use_foreign && rng.chance(1, 4) {
                if rng.bool() {
                    let codec = *rng.pick(&[Codec::Bincode, Codec::Bincode, Codec::BincodeVar, Codec::BincodeBe]);
                    step!(Op::ForeignBin { ty, raw: draw_foreign_raw(&mut rng, ty), codec });
                } else if rng.bool() {
                    let texts = foreign_texts(ty);
                    step!(Op::ForeignText { ty, text: rng.pick(&texts).to_string() });
                } else {
                    // the notation of another producer (ISO 8601 / RFC 3339 and friends) for a value
                    // at or near a range end or anywhere
                    let raw = match rng.below(3) {
                        0 => *rng.pick(&[ty.lo(), ty.hi(), ty.lo() + 1, ty.hi() - 1]),
                        _ => draw_value(&mut rng, ty),
                    };
                    let mut b: Vec<u8> = Vec::new();
                    let _ = codec::encode(ty, raw, Codec::Json, &mut b);
                    let own = String::from_utf8_lossy(&b).trim_matches('"').to_string();
                    let zone = *rng.pick(&["Z", "+00:00", "+01:00", "-05:00", "+14:00", "-12:00", "+05:45", "+0100", " UTC", "z", "-00:01", "+23:59"]);
                    const TAILS: [&str; 10] = [
                        "（木曜日）です", " 日本標準時（JST）", " Ora legale dell’Europa centrale", " московское время", " — übermorgen früh",
                        "  heure d’été d’Europe centrale", " ⏰⏰⏰⏰⏰⏰⏰", "　　　　　　　", " ÄÖÜäöüßÄÖÜäöüß", " الوقت العربي الرسمي",
                    ];
                    let text = match rng.below(11) {
                        8 | 9 | 10 => {
                            // a complete valid value followed by trailing text of another script,
                            // shifted by 0..3 ASCII bytes so that character boundaries fall everywhere
                            let pad = &"   "[..rng.usize_below(4)];
                            let tail = *rng.pick(&TAILS);
                            // ... or only a prefix of the value (its first field, its first two fields, ...),
                            // so that the text is refused at a separator and not at its end
                            let own = if rng.chance(1, 3) { own[..rng.usize_below(own.len() + 1)].to_string() } else { own };
                            match rng.below(3) {
                                0 => format!("{}{}{}", own, pad, tail),
                                1 => format!("{}{}{}{}", own, pad, tail, tail),
                                _ => format!("{}{}{}{}{}{}", own, pad, tail, tail, tail, tail),
                            }
                        }
                        0 => format!("{}{}", own.replacen(' ', "T", 1), zone),
                        1 => own.replacen(' ', "T", 1),
                        2 => format!("{}{}", own, zone),
                        3 => own.replace('-', "/"),
                        4 => own.replace(['-', ':', ' ', '.'], ""),
                        5 => own.replace('.', ","),
                        6 => format!("{} {}", own, *rng.pick(&["AM", "PM", "BC", "AD"])),
                        _ => format!("{}{}", own.replacen(' ', "t", 1), zone.to_ascii_lowercase()),
                    };
                    step!(Op::ForeignText { ty, text });
                }
            } else if rng.chance(1, 16) {
                let n = 1 + rng.usize_below(5);
                let raws: Vec<i64> = (0..n).map(|_| draw_value(&mut rng, ty)).collect();
                let codec = Codec::draw(&mut rng);
                // (no draws of its own: the streams of all other operations stay what they were)
                let nested = Op::WriteNested { ty, raw: raws[0], inner_raw: raws[raws.len() - 1] ^ (raws.len() as i64 & 1), plain_first: raws.len() % 2 == 1, codec };
                step!(Op::WriteTable { ty, raws, codec });
                step!(nested);
            } else if rng.chance(1, 10) {
                // a value returned by the crate's own arithmetic, with operands that tend to
                // land the result on a boundary
                let kind = rng.pick(&codec::DERIVED_KINDS).to_string();
                let (ta, tb) = codec::derived_operands(&kind);
                let a = draw_value(&mut rng, ta);
                let mut b = draw_value(&mut rng, tb);
                const DAY: i64 = 86_400_000_000;
                if rng.bool() {
                    b = match kind.as_str() {
                        "Time::add_interval_dt" => (DAY - a + *rng.pick(&[-1i64, 0, 1])).clamp(tb.lo(), tb.hi()),
                        "Time::sub_interval_dt" => (a - DAY + *rng.pick(&[-1i64, 0, 1])).clamp(tb.lo(), tb.hi()),
                        "Time::sub_time" => *rng.pick(&[0i64, a, DAY - 1]),
                        "Timestamp::sub_timestamp" => (a - *rng.pick(&[DAY, -DAY, 0, 1, -1])).clamp(tb.lo(), tb.hi()),
                        "Date::add_days" => *rng.pick(&[0i64, 1, -1, 31, 365, 366]),
                        _ => b,
                    };
                }
                let a = if kind == "Time::from(IntervalDT)" && rng.bool() {
                    *rng.pick(&[DAY, -DAY, DAY - 1, DAY + 1, 2 * DAY, 0, -1, 43_200_000_000])
                } else {
                    a
                };
                let codec = Codec::draw(&mut rng);
                step!(Op::WriteDerived { kind, a, b, codec });
            } else {
                let codec = Codec::draw(&mut rng);
                let fault = if use_write_faults { draw_write_fault(&mut rng) } else { WriteFault::None };
                // consecutive values are often neighbours (sorted rows, the same day, one unit apart)
                let raw = match (&last_written, rng.below(4)) {
                    (Some((lt, lraw)), 0) if *lt == ty => {
                        const DAY: i64 = 86_400_000_000;
                        let unit = if ty.bin_width() == 4 { 1 } else { *rng.pick(&[1i64, 1_000_000, 3_600_000_000, DAY - 1, DAY, DAY + 1]) };
                        let d = if rng.bool() { unit } else { -unit };
                        let v = (lraw + d).clamp(ty.lo(), ty.hi());
                        if ty == Ty::Oracle { v.div_euclid(1_000_000) * 1_000_000 } else { v }
                    }
                    _ => draw_value(&mut rng, ty),
                };
                last_written = Some((ty, raw));
                step!(Op::Write { ty, raw, codec, fault });
            }
            if found.is_some() {
                break 'gen;
            }
            if rng.below(10) < sync_rate {
                step!(Op::Sync);
            }
        }
        if crash_after == n_records {
            step!(Op::CrashLose);
        } else if !use_crash || rng.bool() {
            step!(Op::Sync);
        }
        if use_at_rest && !w.disk.data.is_empty() {
            let n = 1 + rng.usize_below(4);
            for _ in 0..n {
                let len = w.disk.data.len();
                // bias towards record starts and ends
                let pos = if rng.bool() && !w.cat.is_empty() {
                    let e = rng.pick(&w.cat).clone();
                    (e.off + rng.usize_below(e.len.max(1))).min(len.saturating_sub(1))
                } else {
                    rng.usize_below(len.max(1))
                };
                match rng.below(8) {
                    0..=3 => step!(Op::BitFlip { pos, bit: rng.below(8) as u8 }),
                    4 | 5 => step!(Op::Zero { pos, len: 1 + rng.usize_below(8) }),
                    6 => step!(Op::Dup { src: rng.usize_below(len.max(1)), dst: pos, len: 1 + rng.usize_below(16) }),
                    _ => step!(Op::Truncate { len: pos }),
                }
            }
        }
        let fault = if use_read_faults {
            ReadFault {
                max: *rng.pick(&[1usize, 1, 2, 3, 7, usize::MAX]),
                eintr_every: *rng.pick(&[0usize, 1, 2, 5]),
                early_eof: if rng.chance(1, 3) { rng.usize_below(30) } else { usize::MAX },
            }
        } else {
            ReadFault::NONE
        };
        let eof_record = if w.cat.is_empty() { 0 } else { rng.usize_below(w.cat.len()) };
        step!(Op::ReadAll { fault, eof_record });
    }
    stats.runs += 1;
    stats.batch_hash = stats
        .batch_hash
        .wrapping_add(pool::batch_mix(run ^ if fault_free { 1 << 62 } else { 0 }, log.finish()));
    if run < 2 && !fault_free {
        // (the sample must not depend on which worker process happened to execute the run: no "env")
        let mut sj = script_to_json(&Script { seed, run, fault_free, enumerate, ops: ops.clone() });
        if let Some(m) = sj.as_object_mut() {
            m.remove("env");
        }
        stats.samples.push(json!({"run": run, "script": sj}));
    }
    (Script { seed, run, fault_free, enumerate, ops }, found)
}

/// The history of one worker thread: the `k` runs it executed before `run`,
/// then `run`, as one script (each run on its own new disk).
fn history_script(seed: u64, run: u64, fault_free: bool, workers: u64, k: u64) -> Script {
    let mut st = Stats::default();
    let mut idx = run.saturating_sub(k * workers);
    while idx % workers != run % workers {
        idx += 1;
    }
    let mut combined: Option<Script> = None;
    while idx <= run {
        let (s, _) = simulate_run(seed, idx, fault_free, &mut st);
        match combined.as_mut() {
            None => combined = Some(s),
            Some(c) => {
                c.ops.push(Op::NewDisk);
                c.enumerate = c.enumerate || s.enumerate;
                c.ops.extend(s.ops);
            }
        }
        idx += workers;
    }
    let mut c = combined.expect("at least the run itself");
    c.run = run;
    c
}

fn fails_in_process(s: &Script, class: &str) -> bool {
    let mut st = Stats::default();
    matches!(run_script(s, &mut st).0, Some((_, v)) if v.class == class)
}

/// Executes the script with --replay in a new process: no state left in the
/// library by earlier runs can take part.
fn fails_in_fresh_process(s: &Script, class: &str) -> bool {
    let path = simcore::verif_root().join("sim").join("target").join(format!("c15-scratch-{}.json", std::process::id()));
    let body = json!({"property": PROPERTY, "kind": "disk", "class": class, "script": script_to_json(s)});
    if simcore::evidence::write_json_atomic(&path, &body).is_err() {
        return false;
    }
    let exe = match std::env::current_exe() {
        Ok(e) => e,
        Err(_) => return false,
    };
    let r = std::process::Command::new(exe).arg("--replay").arg(&path).arg("--expect-class").arg(class).output();
    let _ = std::fs::remove_file(&path);
    matches!(r, Ok(o) if o.status.code() == Some(EXIT_VIOLATION))
}

fn shrink(mut s: Script, class: &str, pred: &dyn Fn(&Script, &str) -> bool, mut budget: usize) -> Script {
    let mut fails = |c: &Script| -> bool {
        if budget == 0 {
            return false;
        }
        budget -= 1;
        pred(c, class)
    };
    if !fails(&s) {
        return s;
    }
    loop {
        let mut changed = false;
        // drop whole chunks first (histories can be long), then single ops
        let mut chunk = s.ops.len() / 2;
        while chunk >= 2 {
            let mut start = 0;
            while start < s.ops.len() {
                let end = (start + chunk).min(s.ops.len());
                let mut c = s.clone();
                c.ops.drain(start..end);
                if !c.ops.is_empty() && fails(&c) {
                    s = c;
                    changed = true;
                } else {
                    start += chunk;
                }
            }
            chunk /= 2;
        }
        let mut i = s.ops.len();
        while i > 0 {
            i -= 1;
            let mut c = s.clone();
            c.ops.remove(i);
            if fails(&c) {
                s = c;
                changed = true;
            }
        }
        // simplify write faults and read faults
        for i in 0..s.ops.len() {
            let mut c = s.clone();
            let simpler = match &c.ops[i] {
                Op::Write { ty, raw, codec, fault } if *fault != WriteFault::None => {
                    Some(Op::Write { ty: *ty, raw: *raw, codec: *codec, fault: WriteFault::None })
                }
                Op::ReadAll { fault, .. } if *fault != ReadFault::NONE => Some(Op::ReadAll { fault: ReadFault::NONE, eof_record: 0 }),
                _ => None,
            };
            if let Some(op) = simpler {
                c.ops[i] = op;
                if fails(&c) {
                    s = c;
                    changed = true;
                }
            }
        }
        if !changed {
            break;
        }
    }
    s
}

fn wf_to_json(f: &WriteFault) -> Value {
    match f {
        WriteFault::None => json!("none"),
        WriteFault::Short { max } => json!({"short": max}),
        WriteFault::Eintr { nth } => json!({"eintr_nth_call": nth}),
        WriteFault::Eio { at } => json!({"eio_at_byte": at}),
        WriteFault::Enospc { at } => json!({"enospc_at_byte": at}),
        WriteFault::Panic { nth } => json!({"writer_panics_in_call": nth}),
    }
}

fn wf_from_json(v: &Value) -> WriteFault {
    if let Some(m) = v.get("short").and_then(|x| x.as_u64()) {
        WriteFault::Short { max: m as usize }
    } else if let Some(m) = v.get("eintr_nth_call").and_then(|x| x.as_u64()) {
        WriteFault::Eintr { nth: m as usize }
    } else if let Some(m) = v.get("eio_at_byte").and_then(|x| x.as_u64()) {
        WriteFault::Eio { at: m as usize }
    } else if let Some(m) = v.get("enospc_at_byte").and_then(|x| x.as_u64()) {
        WriteFault::Enospc { at: m as usize }
    } else if let Some(m) = v.get("writer_panics_in_call").and_then(|x| x.as_u64()) {
        WriteFault::Panic { nth: m as usize }
    } else {
        WriteFault::None
    }
}

fn us(v: usize) -> Value {
    if v == usize::MAX {
        json!("none")
    } else {
        json!(v)
    }
}
fn us_back(v: &Value) -> usize {
    v.as_u64().map(|x| x as usize).unwrap_or(usize::MAX)
}

fn script_to_json(s: &Script) -> Value {
    let ops: Vec<Value> = s
        .ops
        .iter()
        .map(|op| match op {
            Op::Write { ty, raw, codec, fault } => {
                json!({"op": "write", "type": ty.name(), "raw": raw, "codec": codec.name(), "write_fault": wf_to_json(fault)})
            }
            Op::ForeignBin { ty, raw, codec } => json!({"op": "foreign_bin", "type": ty.name(), "raw": raw, "codec": codec.name()}),
            Op::ForeignText { ty, text } => json!({"op": "foreign_text", "type": ty.name(), "text": text}),
            Op::ForeignJson { ty, json } => json!({"op": "foreign_json", "type": ty.name(), "json": json}),
            Op::ForeignValue { ty, kind, raw, text, human } => json!({"op": "foreign_value", "type": ty.name(), "kind": kind, "raw": raw, "text": text, "human_readable": human}),
            Op::WriteTable { ty, raws, codec } => json!({"op": "write_table", "type": ty.name(), "raws": raws, "codec": codec.name()}),
            Op::WriteNested { ty, raw, inner_raw, plain_first, codec } => json!({"op": "write_nested", "type": ty.name(), "raw": raw, "inner_raw": inner_raw, "plain_first": plain_first, "codec": codec.name()}),
            Op::WriteDerived { kind, a, b, codec } => json!({"op": "write_derived", "kind": kind, "a": a, "b": b, "codec": codec.name()}),
            Op::Sync => json!({"op": "sync"}),
            Op::NewDisk => json!({"op": "new_disk"}),
            Op::CrashLose => json!({"op": "crash_lose_unsynced_tail"}),
            Op::CrashTorn { keep, fill } => json!({"op": "crash_torn_tail", "keep": keep, "fill": fill}),
            Op::BitFlip { pos, bit } => json!({"op": "bit_flip", "pos": pos, "bit": bit}),
            Op::Zero { pos, len } => json!({"op": "zero", "pos": pos, "len": len}),
            Op::Dup { src, dst, len } => json!({"op": "dup_sector", "src": src, "dst": dst, "len": len}),
            Op::Truncate { len } => json!({"op": "truncate", "len": len}),
            Op::ReadAll { fault, eof_record } => json!({"op": "restart_and_read_all", "read_max_chunk": us(fault.max), "eintr_every": fault.eintr_every, "early_eof_at": us(fault.early_eof), "eof_record": eof_record}),
        })
        .collect();
    json!({"seed": s.seed, "run": s.run, "fault_free": s.fault_free, "enumerate_single_faults_per_record": s.enumerate, "ops": ops,
        "env": simcore::envswarm::installed_json()})
}

fn script_from_json(v: &Value) -> Result<Script, String> {
    let mut ops = Vec::new();
    for o in v["ops"].as_array().ok_or("ops")? {
        let ty = || Ty::from_name(o["type"].as_str().unwrap_or("")).ok_or_else(|| "type".to_string());
        let u = |k: &str| o[k].as_u64().map(|x| x as usize).ok_or_else(|| k.to_string());
        ops.push(match o["op"].as_str().ok_or("op")? {
            "write" => Op::Write {
                ty: ty()?,
                raw: o["raw"].as_i64().ok_or("raw")?,
                codec: Codec::from_name(o["codec"].as_str().unwrap_or("")).ok_or("codec")?,
                fault: wf_from_json(&o["write_fault"]),
            },
            "foreign_bin" => Op::ForeignBin {
                ty: ty()?,
                raw: o["raw"].as_i64().ok_or("raw")?,
                codec: Codec::from_name(o["codec"].as_str().unwrap_or("bincode")).filter(|c| c.is_binary()).unwrap_or(Codec::Bincode),
            },
            "foreign_text" => Op::ForeignText { ty: ty()?, text: o["text"].as_str().ok_or("text")?.to_string() },
            "foreign_json" => Op::ForeignJson { ty: ty()?, json: o["json"].as_str().ok_or("json")?.to_string() },
            "foreign_value" => Op::ForeignValue {
                ty: ty()?,
                kind: o["kind"].as_str().ok_or("kind")?.to_string(),
                raw: o["raw"].as_i64().ok_or("raw")?,
                text: o["text"].as_str().ok_or("text")?.to_string(),
                human: o["human_readable"].as_bool().unwrap_or(true),
            },
            "write_table" => Op::WriteTable {
                ty: ty()?,
                raws: o["raws"].as_array().ok_or("raws")?.iter().filter_map(|x| x.as_i64()).collect(),
                codec: Codec::from_name(o["codec"].as_str().unwrap_or("")).ok_or("codec")?,
            },
            "write_nested" => Op::WriteNested {
                ty: ty()?,
                raw: o["raw"].as_i64().ok_or("raw")?,
                inner_raw: o["inner_raw"].as_i64().ok_or("inner_raw")?,
                plain_first: o["plain_first"].as_bool().unwrap_or(true),
                codec: Codec::from_name(o["codec"].as_str().unwrap_or("")).ok_or("codec")?,
            },
            "write_derived" => Op::WriteDerived {
                kind: o["kind"].as_str().ok_or("kind")?.to_string(),
                a: o["a"].as_i64().ok_or("a")?,
                b: o["b"].as_i64().ok_or("b")?,
                codec: Codec::from_name(o["codec"].as_str().unwrap_or("")).ok_or("codec")?,
            },
            "sync" => Op::Sync,
            "new_disk" => Op::NewDisk,
            "crash_lose_unsynced_tail" => Op::CrashLose,
            "crash_torn_tail" => Op::CrashTorn { keep: u("keep")?, fill: u("fill")? as u8 },
            "bit_flip" => Op::BitFlip { pos: u("pos")?, bit: u("bit")? as u8 },
            "zero" => Op::Zero { pos: u("pos")?, len: u("len")? },
            "dup_sector" => Op::Dup { src: u("src")?, dst: u("dst")?, len: u("len")? },
            "truncate" => Op::Truncate { len: u("len")? },
            "restart_and_read_all" => Op::ReadAll {
                fault: ReadFault {
                    max: us_back(&o["read_max_chunk"]),
                    eintr_every: u("eintr_every")?,
                    early_eof: us_back(&o["early_eof_at"]),
                },
                eof_record: u("eof_record")?,
            },
            other => return Err(format!("unknown op {other}")),
        });
    }
    Ok(Script {
        seed: v["seed"].as_u64().unwrap_or(0),
        run: v["run"].as_u64().unwrap_or(0),
        fault_free: v["fault_free"].as_bool().unwrap_or(false),
        enumerate: v["enumerate_single_faults_per_record"].as_bool().unwrap_or(false),
        ops,
    })
}

fn replay(path: &str, expect_class: Option<&str>) -> i32 {
    let v = match simcore::evidence::read_json(std::path::Path::new(path)) {
        Ok(v) => v,
        Err(e) => {
            eprintln!("harness error: {e}");
            return EXIT_HARNESS;
        }
    };
    if v["kind"].as_str() == Some("miri") {
        return simcore::miri::replay(PROPERTY, "c15", "c15_threads", &v, path);
    }
    let script = match script_from_json(&v["script"]) {
        Ok(s) => s,
        Err(e) => {
            eprintln!("harness error: bad replay file: {e}");
            return EXIT_HARNESS;
        }
    };
    // the environment of the worker process that found it
    simcore::envswarm::install_from_json(&v["script"]["env"]);
    let mut st = Stats::default();
    // on a thread of its own, with the thread-exit probe, as one run in 32 is executed
    let ((viol, hash), at_exit) = on_fresh_thread(|| run_script(&script, &mut st));
    let viol = viol.or(at_exit.map(|v| (script.ops.len(), v)));
    println!("replay {}: {} ops, log hash {:016x}", path, script.ops.len(), hash);
    match viol {
        Some((_, v)) if expect_class.map(|c| c != v.class).unwrap_or(false) => {
            println!("a violation of another class ({}) occurs, not the expected one", v.class);
            EXIT_OK
        }
        Some((i, v)) => {
            println!("reproduced at op {}: class={} {}", i, v.class, v.detail);
            println!("VIOLATION property={} replay={}", PROPERTY, path);
            EXIT_VIOLATION
        }
        None => {
            println!("no violation on this tree");
            EXIT_OK
        }
    }
}

/// Fault-free control over complete sub-spaces: every date, every second of the day.
fn control_sweep(idx: u64, stats: &mut Stats) -> Option<(Script, Violation)> {
    // idx < N_DATES: that date; else second (idx - N_DATES) of the day for Time, and as timestamp/oracle on a date derived from it
    let n_dates = (DATE_MAX_DAYS - DATE_MIN_DAYS + 1) as u64;
    let mut items: Vec<(Ty, i64)> = Vec::new();
    if idx < n_dates {
        let d = DATE_MIN_DAYS + idx as i64;
        items.push((Ty::Date, d));
        // the same day as timestamp at a varying microsecond, and as Oracle-style date
        let us = (idx as i64 * 7_919_000_003).rem_euclid(USECS_PER_DAY);
        items.push((Ty::Timestamp, d * USECS_PER_DAY + us));
        items.push((Ty::Oracle, d * USECS_PER_DAY + us / 1_000_000 * 1_000_000));
    } else {
        let s = (idx - n_dates) as i64;
        items.push((Ty::Time, s * 1_000_000 + (s * 7_919) % 1_000_000));
        items.push((Ty::IntervalDT, (s - 43_200) * 99_991 * USECS_PER_DAY / 1000 + s));
        items.push((Ty::IntervalYM, (s - 43_200) * 49_000));
    }
    for (ty, raw) in items {
        if !ty.in_range(raw) {
            continue;
        }
        for codec in [Codec::Json, Codec::Bincode, Codec::BincodeVar, Codec::BincodeBe] {
            let mut buf: Vec<u8> = Vec::with_capacity(40);
            let enc = codec::encode(ty, raw, codec, &mut buf);
            stats.encodes += 1;
            let op = Op::Write { ty, raw, codec, fault: WriteFault::None };
            let mk = |v: Violation| {
                (
                    Script { seed: 0, run: idx, fault_free: true, enumerate: true, ops: vec![op.clone()] },
                    v,
                )
            };
            match enc {
                Encoded::Ok => {}
                Encoded::NotAValue => continue,
                Encoded::Err(e) => {
                    return Some(mk(Violation {
                        class: "serialize_failed",
                        sig: format!("serialize_failed:{}:{}", ty.name(), codec.name()),
                        detail: format!("serializing {} raw {} as {} failed: {}", ty.name(), raw, codec.name(), e),
                    }))
                }
                Encoded::Panic(m) => {
                    return Some(mk(Violation {
                        class: "panic",
                        sig: format!("panic_serialize:{}:{}", ty.name(), codec.name()),
                        detail: format!("serializing {} raw {} as {} panicked: {}", ty.name(), raw, codec.name(), m),
                    }))
                }
            }
            if codec == Codec::Json {
                stats.max_text_len = stats.max_text_len.max(buf.len().saturating_sub(2));
            }
            let got = codec::decode_slice(ty, codec, &buf);
            stats.decodes += 1;
            stats.records += 1;
            if let Some(v) = judge(ty, codec, "serialized", &got, Some(raw), &show_bytes(&buf), stats) {
                return Some(mk(v));
            }
        }
    }
    None
}

fn main() {
    let args: Vec<String> = std::env::args().collect();
    let mut tier = std::env::var("VERIF_TIER").unwrap_or_else(|_| "quick".into());
    let mut runs_override: Option<u64> = None;
    let mut miri_seeds_override: Option<u64> = None;
    let mut no_miri = false;
    let mut out = simcore::verif_root().join("evidence").join("C15.json");
    let mut replay_file: Option<String> = None;
    let mut expect_class: Option<String> = None;
    let mut worker_proc: Option<(String, u64, u64)> = None;
    let mut passthrough: Vec<String> = Vec::new();
    let mut i = 1;
    while i < args.len() {
        if matches!(args[i].as_str(), "--tier" | "--runs") && i + 1 < args.len() {
            passthrough.push(args[i].clone());
            passthrough.push(args[i + 1].clone());
        }
        match args[i].as_str() {
            "--worker-proc" => {
                worker_proc = Some((args[i + 1].clone(), args[i + 2].parse().unwrap_or(0), args[i + 3].parse().unwrap_or(1)));
                i += 3;
            }
            "--tier" => {
                i += 1;
                tier = args[i].clone();
            }
            "--runs" => {
                i += 1;
                runs_override = args[i].parse().ok();
            }
            "--miri-seeds" => {
                i += 1;
                miri_seeds_override = args[i].parse().ok();
            }
            "--no-miri" => no_miri = true,
            "--out" => {
                i += 1;
                out = args[i].clone().into();
            }
            "--replay" => {
                i += 1;
                replay_file = Some(args[i].clone());
            }
            "--expect-class" => {
                i += 1;
                expect_class = Some(args[i].clone());
            }
            other => {
                eprintln!("unknown argument {other}");
                std::process::exit(EXIT_HARNESS);
            }
        }
        i += 1;
    }
    codec::install_panic_hook();
    if let Some(f) = replay_file {
        std::process::exit(replay(&f, expect_class.as_deref()));
    }
    if tier != "quick" && tier != "thorough" {
        eprintln!("unknown tier {tier}");
        std::process::exit(EXIT_HARNESS);
    }
    let thorough = tier == "thorough";
    let seed = simcore::seed_from_env();
    let t0 = simcore::real_monotonic_s();
    let workers = pool::default_workers();
    let known = simcore::known::load();

    let n_clean: u64 = runs_override.map(|r| r / 4).unwrap_or(if thorough { 500_000 } else { 50_000 });
    let n_dates = (DATE_MAX_DAYS - DATE_MIN_DAYS + 1) as u64;
    let ctrl_stride: u64 = if thorough { 1 } else { 23 };
    let n_fault: u64 = runs_override.unwrap_or(if thorough { 2_000_000 } else { 200_000 });

    // ---- worker process: one slice of one phase, single-threaded, shares no library state ----
    if let Some((phase, k, w)) = worker_proc {
        // the process environment is a seam too: odd-numbered workers run with a seeded set of
        // date/locale related variables, even-numbered ones with none of them
        simcore::envswarm::install(&simcore::envswarm::plan(seed, k));
        let mut acc = Stats::default();
        match phase.as_str() {
            "clean" | "fault" => {
                let (n, ff) = if phase == "clean" { (n_clean, true) } else { (n_fault, false) };
                let mut idx = k;
                while idx < n {
                    // one run in 32 executes on a thread of its own: per-thread
                    // library state is then in its first-use condition
                    let outcome = if idx % 32 == 5 {
                        acc.probe("run_on_a_fresh_thread");
                        let ((sc, v), at_exit) = on_fresh_thread(|| simulate_run(seed, idx, ff, &mut acc));
                        (sc, v.or(at_exit))
                    } else {
                        simulate_run(seed, idx, ff, &mut acc)
                    };
                    if let (sc, Some(v)) = outcome {
                        acc.violations.push((idx, sc, v));
                        break;
                    }
                    idx += w;
                }
            }
            _ => {
                let mut idx = k;
                while idx < n_dates + 86_400 {
                    if idx % ctrl_stride == 0 || idx == n_dates - 1 || idx == n_dates + 86_399 {
                        acc.runs += 1;
                        if let Some((sc, v)) = control_sweep(idx, &mut acc) {
                            acc.violations.push((idx, sc, v));
                            break;
                        }
                    }
                    idx += w;
                }
            }
        }
        println!("RESULT {}", acc.to_json());
        std::process::exit(EXIT_OK);
    }

    simcore::envswarm::install(&simcore::envswarm::baseline());
    println!("C15 simulation: VERIF_SEED={seed} tier={tier}");
    let mut phase_errors: Vec<String> = Vec::new();
    let mut run_phase = |phase: &str| -> Stats {
        let mut total = Stats::default();
        for r in simcore::procpool::run_phase(phase, workers as u64, &passthrough) {
            match r.result {
                Ok(v) => total.merge(Stats::from_json(&v)),
                Err(e) => phase_errors.push(e),
            }
        }
        total
    };

    // ---- batch 1: fault-free configuration (round trip must hold for every record) ----
    let mut total: Stats = run_phase("clean");
    let clean_runs = total.runs;
    // fault-free control over complete sub-spaces (thorough: every date and every second of the day)
    let ctrl: Stats = run_phase("control");
    let ctrl_items = ctrl.runs;
    let ctrl_records = ctrl.records;
    total.merge(ctrl);
    let t1 = simcore::real_monotonic_s();
    println!("fault-free: {} runs + control sweep over {} days/seconds ({} records) in {:.1}s", clean_runs, ctrl_items, ctrl_records, t1 - t0);

    // ---- batch 2: fault-injecting configuration (fresh worker processes) ----
    let fault: Stats = if total.violations.is_empty() { run_phase("fault") } else { Stats::default() };
    let fault_runs = fault.runs;
    let first_batch_violations = total.violations.clone();
    let from_fault_free_batch = !first_batch_violations.is_empty();
    total.merge(fault);
    if !first_batch_violations.is_empty() {
        total.violations = first_batch_violations;
    }
    let t2 = simcore::real_monotonic_s();
    println!("fault-injecting: {} runs, {} records, {} decodes ({} enumerated single-fault decodes) in {:.1}s", fault_runs, total.records, total.decodes, total.enumerated_decodes, t2 - t1);
    if !phase_errors.is_empty() {
        for e in &phase_errors {
            eprintln!("harness error: {e}");
        }
        std::process::exit(EXIT_HARNESS);
    }

    // ---- scenario B: threads under Miri ----
    let miri_seeds = miri_seeds_override.unwrap_or(if thorough { 256 } else { 16 });
    // a high preemption rate (a thread switch after almost every basic block) interleaves threads that do
    // the same thing at the finest grain; lower rates give longer uninterrupted stretches
    let rates: Vec<&str> = if thorough { vec!["0.05", "0.5", "0.9"] } else { vec!["0.9", "0.1"] };
    let miri_seeds = if thorough { miri_seeds } else { (miri_seeds / 2).max(1) };
    let miri_res = if no_miri || !total.violations.is_empty() {
        None
    } else {
        Some(simcore::miri::run("c15", "c15_threads", miri_seeds, &rates, seed))
    };
    if let Some(m) = &miri_res {
        match (&m.failure, &m.skipped) {
            (Some((s, r, _)), _) => println!("miri: FAILURE at scheduler seed {} preemption rate {}", s, r),
            (None, Some(why)) => println!("miri: skipped: {}", why.lines().last().unwrap_or("")),
            (None, None) => println!("miri: {} scheduler seeds clean in {:.1}s", m.seeds_run, m.wall_s),
        }
    }

    // ---- violations ----
    let mut exit = EXIT_OK;
    let mut lines: Vec<String> = Vec::new();
    let mut n_viol = 0;
    for (idx, script, v) in total.violations.clone() {
        let class = v.class;
        println!("original violation (run {}): class={} sig={} : {}", idx, class, v.sig, v.detail);
        // from here on this process, and every process it starts, runs in the environment of the
        // worker that found the violation
        simcore::envswarm::install(&simcore::envswarm::plan(seed, idx % workers as u64));
        // does the run reproduce on its own in a fresh process? if not, hidden
        // state from earlier runs of the same worker thread takes part: prepend them
        let mut base: Option<Script> = None;
        if fails_in_fresh_process(&script, class) {
            base = Some(script.clone());
        } else if script.seed != 0 {
            for k in [1u64, 2, 4, 8, 16, 32, 64] {
                let h = history_script(seed, idx, from_fault_free_batch, workers as u64, k);
                if fails_in_fresh_process(&h, class) {
                    println!("the run alone does not reproduce; it does after the {} preceding run(s) of its worker thread", k);
                    base = Some(h);
                    break;
                }
            }
        }
        let base = match base {
            Some(b) => b,
            None => {
                eprintln!("harness error: violation of run {} did not reproduce in a fresh process", idx);
                exit = EXIT_HARNESS;
                continue;
            }
        };
        let quick_min = shrink(base.clone(), class, &fails_in_process, 20_000);
        let min = if fails_in_fresh_process(&quick_min, class) {
            quick_min
        } else {
            shrink(base.clone(), class, &fails_in_fresh_process, 500)
        };
        let mut st = Stats::default();
        let (final_script, final_v) = match run_script(&min, &mut st).0 {
            Some((_, vm)) if vm.class == class => (min, vm),
            _ => (min, v.clone()),
        };
        println!("violation class={} sig={} : {}", final_v.class, final_v.sig, final_v.detail);
        if let Some(desc) = known.lookup(PROPERTY, &final_v.sig) {
            println!("KNOWN-FINDING: property={} {} ({})", PROPERTY, final_v.sig, desc);
            break;
        }
        n_viol += 1;
        let path = simcore::verif_root().join("replays").join(format!("C15-{}-{}.json", seed, idx));
        let body = json!({"property": PROPERTY, "kind": "disk", "class": final_v.class, "signature": final_v.sig, "detail": final_v.detail, "seed": seed, "run": idx, "script": script_to_json(&final_script)});
        if let Err(e) = simcore::evidence::write_json_atomic(&path, &body) {
            eprintln!("harness error: cannot write replay file: {e}");
            std::process::exit(EXIT_HARNESS);
        }
        let exe = std::env::current_exe().expect("current_exe");
        let confirmed = std::process::Command::new(exe)
            .arg("--replay")
            .arg(&path)
            .output()
            .map(|o| o.status.code() == Some(EXIT_VIOLATION))
            .unwrap_or(false);
        if confirmed {
            lines.push(format!("VIOLATION property={} replay={}", PROPERTY, path.display()));
            exit = EXIT_VIOLATION;
            break;
        } else {
            eprintln!("harness error: violation did not reproduce from {}", path.display());
            exit = EXIT_HARNESS;
        }
    }
    if let Some(m) = &miri_res {
        if let Some((s, rate, text)) = &m.failure {
            n_viol += 1;
            let path = simcore::verif_root().join("replays").join(format!("C15-miri-{}-{}.json", seed, s));
            let body = json!({"property": PROPERTY, "kind": "miri", "miri_seed": s, "preemption_rate": rate, "workload_seed": seed, "detail": text});
            let _ = simcore::evidence::write_json_atomic(&path, &body);
            println!("{}", text);
            lines.push(format!("VIOLATION property={} replay={}", PROPERTY, path.display()));
            exit = EXIT_VIOLATION;
        }
    }

    // ---- evidence ----
    let wall = simcore::real_monotonic_s() - t0;
    let mut fk = serde_json::Map::new();
    for (i, name) in FAULTS.iter().enumerate() {
        fk.insert(name.to_string(), json!({"configured": total.fault_configured[i], "fired_on_payload": total.fault_fired[i]}));
    }
    let mut outcomes = serde_json::Map::new();
    for ((ty, codec, what), n) in &total.outcomes {
        outcomes.insert(format!("{}/{}/{}", ty.name(), codec.name(), what), json!(n));
    }
    let mut samples = total.samples.clone();
    if samples.is_empty() {
        samples.push(json!({"note": "no fault-injecting run sampled"}));
    }
    let evidence = json!({
        "property_id": PROPERTY,
        "tier": tier,
        "seed": seed,
        "level": "fault_enumeration",
        "wall_s": wall,
        "violations": n_viol,
        "coverage": {
            "evaluations": total.decodes,
            "distinct_nontrivial": total.distinct.len(),
            "rule": "evaluations = decode executions of the real Deserialize impls through the storage seam: restart read-back of every catalogued record (its own type, then the five other types), plus, for every record of an enumerating run, EVERY single-bit flip, EVERY truncation length and (text form) every single-digit substitution, every byte replaced by its ASCII neighbours and digit-adjacent punctuation, and every numeric field replaced by boundary numbers of the same and of different widths; plus payloads from other formats (JSON values that are not strings, primitives of every serde kind). distinct_nontrivial = distinct (type, codec, fault kind on the record's own bytes or foreign payload kind, damaged position / value class, ok|err|panic) tuples among decodes where a fault or foreign payload was actually involved.",
            "exhaustive": false,
            "samples": samples,
            "runs": {"fault_free": clean_runs, "fault_injecting": fault_runs, "control_sweep_items": ctrl_items},
            "runs_per_hour": if t2 - t1 > 0.0 { (fault_runs as f64 / (t2 - t1) * 3600.0) as u64 } else { 0 },
            "seeds": format!("VERIF_SEED={} -> per-run xoshiro256** streams", seed),
            "records_written": total.records,
            "serializations": total.encodes,
            "enumerated_single_fault_decodes": total.enumerated_decodes,
            "control_sweep": {"stride": ctrl_stride, "complete_over_all_dates_and_all_seconds_of_day": ctrl_stride == 1, "records": ctrl_records},
            "fault_kinds": fk,
            "outcomes": outcomes,
            "probes": total.probes,
            "max_human_readable_length_seen": total.max_text_len,
            "environment_swarm": simcore::envswarm::evidence(seed, workers as u64),
            "interleavings": match &miri_res {
                Some(m) => json!({"engine": "Miri seeded scheduler over real std::thread + once_cell + parking_lot", "scheduler_seeds_run": m.seeds_run, "preemption_rates": rates, "wall_s": m.wall_s, "skipped": m.skipped}),
                None => json!({"skipped": "--no-miri or earlier violation"}),
            },
            "simulated_time_covered": "not meaningful: the code under test has no timers; the storage simulator has no time axis",
            "batch_hash": format!("{:016x}", total.batch_hash),
            "workers": workers,
            "components": {
                "real": ["sqldatetime Serialize/Deserialize impls, static Lazy formatters, Formatter::format/parse, StackStr<32>", "serde_json writer/reader front ends", "bincode", "once_cell + parking_lot (scenario B under Miri)"],
                "stub": ["the disk (SimDisk: page cache, sync, crash, at-rest damage, read faults)", "record framing and catalogue (harness, not subject to faults)"]
            },
            "build_profiles": ["release"],
        },
        "assumptions": [
            "a record is expected to round-trip only if its serialization was acknowledged, synced before any crash, and no injected fault touched its bytes or its read; any other record may decode to an error or to any in-range value",
            "range limits are coded in the harness from the documented ranges, not imported from the library"
        ],
    });
    if let Err(e) = simcore::evidence::write_json_atomic(&out, &evidence) {
        eprintln!("harness error: cannot write evidence: {e}");
        std::process::exit(EXIT_HARNESS);
    }
    println!(
        "C15: decodes={} distinct_nontrivial={} records={} batch_hash={:016x} wall={:.1}s",
        total.decodes,
        total.distinct.len(),
        total.records,
        total.batch_hash,
        wall
    );
    for l in lines {
        println!("{l}");
    }
    std::process::exit(exit);
}
