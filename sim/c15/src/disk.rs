//! Simulated storage: a page-cached append-only file with injectable write,
//! crash, at-rest and read faults. The simulator knows exactly which bytes it
//! damaged.

use std::io::{self, ErrorKind, Read, Write};

#[derive(Clone, Copy, Debug, PartialEq, Eq)]
pub enum WriteFault {
    None,
    /// every write call accepts at most `max` bytes
    Short { max: usize },
    /// the `nth` write call of this record fails once with ErrorKind::Interrupted
    Eintr { nth: usize },
    /// hard I/O error once `at` bytes of this record have been accepted
    Eio { at: usize },
    /// device full once `at` bytes of this record have been accepted
    Enospc { at: usize },
    /// the caller's writer itself panics in its `nth` write call (a bug in caller code that
    /// unwinds through serde and the crate); the process goes on afterwards
    Panic { nth: usize },
}

/// Payload of the injected writer panic.
pub struct InjectedWriterPanic;

#[derive(Clone, Copy, Debug, PartialEq, Eq)]
pub struct ReadFault {
    /// every read call returns at most `max` bytes (>= 1)
    pub max: usize,
    /// every `eintr_every`-th read call fails with ErrorKind::Interrupted first (0 = never)
    pub eintr_every: usize,
    /// report end of file after this many bytes of the record (usize::MAX = never)
    pub early_eof: usize,
}

impl ReadFault {
    pub const NONE: ReadFault = ReadFault {
        max: usize::MAX,
        eintr_every: 0,
        early_eof: usize::MAX,
    };
}

#[derive(Default, Clone)]
pub struct SimDisk {
    /// file content including the un-synced tail
    pub data: Vec<u8>,
    /// bytes [0, synced) are durable
    pub synced: usize,
    /// per byte: was it changed / invented by a fault
    pub damaged: Vec<bool>,
}

pub struct DiskWriter<'a> {
    disk: &'a mut SimDisk,
    fault: WriteFault,
    accepted: usize,
    calls: usize,
    pub fault_fired: bool,
}

impl SimDisk {
    pub fn writer(&mut self, fault: WriteFault) -> DiskWriter<'_> {
        DiskWriter {
            disk: self,
            fault,
            accepted: 0,
            calls: 0,
            fault_fired: false,
        }
    }

    pub fn sync(&mut self) {
        self.synced = self.data.len();
    }

    /// Power loss: the un-synced tail disappears.
    pub fn crash_lose_tail(&mut self) {
        self.data.truncate(self.synced);
        self.damaged.truncate(self.synced);
    }

    /// Power loss with a torn tail: `keep` bytes of the un-synced tail made it;
    /// the remainder is absent (fill = 0), zero-filled (1) or stale bytes (2).
    pub fn crash_torn(&mut self, keep: usize, fill: u8, stale: &[u8]) {
        let tail = self.data.len() - self.synced;
        let keep = keep.min(tail);
        let cut = self.synced + keep;
        match fill {
            0 => {
                self.data.truncate(cut);
                self.damaged.truncate(cut);
            }
            1 => {
                for i in cut..self.data.len() {
                    self.data[i] = 0;
                    self.damaged[i] = true;
                }
            }
            _ => {
                for i in cut..self.data.len() {
                    self.data[i] = if stale.is_empty() { 0x22 } else { stale[(i - cut) % stale.len()] };
                    self.damaged[i] = true;
                }
            }
        }
        self.synced = self.data.len();
    }

    pub fn flip_bit(&mut self, pos: usize, bit: u8) -> bool {
        if pos < self.data.len() {
            self.data[pos] ^= 1 << (bit & 7);
            self.damaged[pos] = true;
            true
        } else {
            false
        }
    }

    pub fn zero(&mut self, pos: usize, len: usize) -> usize {
        let end = (pos + len).min(self.data.len());
        for i in pos.min(end)..end {
            self.data[i] = 0;
            self.damaged[i] = true;
        }
        end.saturating_sub(pos)
    }

    pub fn dup_sector(&mut self, src: usize, dst: usize, len: usize) -> usize {
        let n = self.data.len();
        if src >= n || dst >= n {
            return 0;
        }
        let len = len.min(n - src).min(n - dst);
        let copy: Vec<u8> = self.data[src..src + len].to_vec();
        for (i, b) in copy.into_iter().enumerate() {
            self.data[dst + i] = b;
            self.damaged[dst + i] = true;
        }
        len
    }

    pub fn truncate(&mut self, len: usize) {
        if len < self.data.len() {
            self.data.truncate(len);
            self.damaged.truncate(len);
            self.synced = self.synced.min(len);
        }
    }

    /// The bytes of a record as found on disk now, and whether any of them is
    /// damaged or missing.
    pub fn record(&self, off: usize, len: usize) -> (&[u8], bool) {
        let end = (off + len).min(self.data.len());
        let start = off.min(end);
        let slice = &self.data[start..end];
        let missing = slice.len() < len;
        let touched = missing || self.damaged[start..end].iter().any(|d| *d);
        (slice, touched)
    }
}

impl<'a> Write for DiskWriter<'a> {
    fn write(&mut self, buf: &[u8]) -> io::Result<usize> {
        if buf.is_empty() {
            return Ok(0);
        }
        self.calls += 1;
        let mut n = buf.len();
        match self.fault {
            WriteFault::None => {}
            WriteFault::Short { max } => {
                if n > max.max(1) {
                    n = max.max(1);
                    self.fault_fired = true;
                }
            }
            WriteFault::Eintr { nth } => {
                if self.calls == nth.max(1) {
                    self.fault_fired = true;
                    return Err(io::Error::new(ErrorKind::Interrupted, "simulated EINTR"));
                }
            }
            WriteFault::Eio { at } => {
                if self.accepted >= at {
                    self.fault_fired = true;
                    return Err(io::Error::new(ErrorKind::Other, "simulated EIO"));
                }
                n = n.min(at - self.accepted);
            }
            WriteFault::Enospc { at } => {
                if self.accepted >= at {
                    self.fault_fired = true;
                    return Err(io::Error::new(ErrorKind::StorageFull, "simulated ENOSPC"));
                }
                n = n.min(at - self.accepted);
            }
            WriteFault::Panic { nth } => {
                if self.calls == nth.max(1) {
                    self.fault_fired = true;
                    std::panic::panic_any(InjectedWriterPanic);
                }
            }
        }
        self.disk.data.extend_from_slice(&buf[..n]);
        self.disk.damaged.resize(self.disk.data.len(), false);
        self.accepted += n;
        Ok(n)
    }

    fn flush(&mut self) -> io::Result<()> {
        Ok(())
    }
}

pub struct DiskReader<'a> {
    data: &'a [u8],
    pos: usize,
    fault: ReadFault,
    calls: usize,
    pub short_fired: u64,
    pub eintr_fired: u64,
    pub eof_fired: bool,
}

impl<'a> DiskReader<'a> {
    pub fn new(data: &'a [u8], fault: ReadFault) -> Self {
        DiskReader {
            data,
            pos: 0,
            fault,
            calls: 0,
            short_fired: 0,
            eintr_fired: 0,
            eof_fired: false,
        }
    }
}

impl<'a> Read for DiskReader<'a> {
    fn read(&mut self, buf: &mut [u8]) -> io::Result<usize> {
        if buf.is_empty() {
            return Ok(0);
        }
        self.calls += 1;
        if self.fault.eintr_every > 0 && self.calls % (self.fault.eintr_every + 1) == 1 {
            self.eintr_fired += 1;
            return Err(io::Error::new(ErrorKind::Interrupted, "simulated EINTR"));
        }
        let limit = self.data.len().min(self.fault.early_eof);
        if self.pos >= limit {
            if limit < self.data.len() {
                self.eof_fired = true;
            }
            return Ok(0);
        }
        let mut n = buf.len().min(limit - self.pos);
        if n > self.fault.max.max(1) {
            n = self.fault.max.max(1);
            self.short_fired += 1;
        }
        buf[..n].copy_from_slice(&self.data[self.pos..self.pos + n]);
        self.pos += n;
        Ok(n)
    }
}
