#!/bin/bash
# The other direction of sensitivity: refactors that do NOT break any claimed property are applied to
# /repo in turn; the quick check of the property they touch must stay silent (exit 0, no VIOLATION line).
set -u
ROOT="$(cd "$(dirname "${BASH_SOURCE[0]}")/.." && pwd)"
if [ -n "$(git -C /repo status --porcelain)" ]; then echo "/repo is dirty, refusing"; exit 2; fi
trap 'git -C /repo checkout -- . 2>/dev/null; git -C /repo clean -fdq -- src 2>/dev/null' EXIT
bad=0
PAT="${1:-}"
for p in "$ROOT"/sensitivity/benign/*.diff; do
  case "$p" in *"$PAT"*) ;; *) continue;; esac
  name=$(basename "$p" .diff); prop=${name%%-*}
  if ! git -C /repo apply "$p" 2>/dev/null; then echo "SKIP   $name (patch does not apply)"; continue; fi
  if (cd /repo && cargo test --workspace --offline >/dev/null 2>&1 && cargo test --offline --all-features >/dev/null 2>&1); then tests=pass; else tests=FAIL; fi
  out=$("$ROOT/check" "$prop" --tier quick --out "$ROOT/sim/target/benign-$prop.json" 2>&1); code=$?
  git -C /repo checkout -- . ; git -C /repo clean -fdq -- src
  if [ $code = 0 ] && ! echo "$out" | grep -q "^VIOLATION"; then verdict=SILENT; else verdict="ALARM(exit $code)"; bad=$((bad+1)); fi
  printf "%-14s %-4s %-45s tests=%s  %s\n" "$verdict" "$prop" "$name" "$tests" "$(echo "$out" | grep -m1 '^violation' | cut -c1-200)"
done
rm -f "$ROOT"/replays/*.json
(cd "$ROOT/sim" && cargo build --offline --release -p c18 -p c15 -p c03 >/dev/null 2>&1 && cargo build --offline --profile relchk -p c03 >/dev/null 2>&1 && cargo build --offline --profile devchk -p c03 >/dev/null 2>&1)
echo "benign refactors raising an alarm: $bad"
[ $bad = 0 ]
