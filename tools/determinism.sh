#!/bin/bash
# Determinism proof obligation: every check is run for N VERIF_SEED values, twice each, in separate
# processes, at worker counts 1, 4 and 16; the evidence (everything except wall-clock fields) and the
# batch hash must be identical. Budgets are reduced so that many seeds can be covered.
#   tools/determinism.sh [N seeds, default 32]
set -u
ROOT="$(cd "$(dirname "${BASH_SOURCE[0]}")/.." && pwd)"
N="${1:-32}"
# (the Miri scenarios are deterministic per (scheduler seed, rate, workload seed) by construction and are left out here)
export VERIF_ROOT="$ROOT" TZ=NPT-5:45 VERIF_NO_MIRI=1
T="$ROOT/sim/target/determinism"; mkdir -p "$T"
if [ -n "$(git -C /repo status --porcelain --untracked-files=no)" ]; then echo "/repo is dirty, refusing"; exit 2; fi
(cd "$ROOT/sim" && CARGO_NET_OFFLINE=true cargo build --offline --release -p c18 -p c15 -p c03 >/dev/null 2>&1 && CARGO_NET_OFFLINE=true cargo build --offline --profile relchk -p c03 >/dev/null 2>&1 && CARGO_NET_OFFLINE=true cargo build --offline --profile devchk -p c03 >/dev/null 2>&1) || { echo "build failed"; exit 2; }
norm() { python3 - "$1" <<'PY'
import json,sys
d=json.load(open(sys.argv[1]))
def scrub(x):
    if isinstance(x,dict):
        return {k:scrub(v) for k,v in x.items() if k not in ("wall_s","runs_per_hour","workers","interleavings","environment_swarm")}
    if isinstance(x,list): return [scrub(v) for v in x]
    return x
d=scrub(d)
if isinstance(d.get("coverage",{}).get("sweep"),dict): d["coverage"]["sweep"].pop("wall_s",None)
print(json.dumps(d,sort_keys=True))
PY
}
bad=0; total=0
for seed in $(seq 1 "$N"); do
  for spec in "c18 --tier quick --runs 4000 --sweep-stride 997 --no-miri" "c15 --tier quick --runs 1500 --no-miri" "c03 --tier quick --calls 6000"; do
    set -- $spec; bin=$1; shift
    ref=""
    for w in 1 4 16 16; do
      out="$T/$bin-$seed-$w-$RANDOM.json"
      VERIF_SEED=$seed VERIF_WORKERS=$w "$ROOT/sim/target/release/$bin" "$@" --out "$out" >/dev/null 2>&1
      code=$?
      cur="$code $(norm "$out" | md5sum | cut -d' ' -f1)"
      rm -f "$out"
      total=$((total+1))
      if [ -z "$ref" ]; then ref="$cur"; elif [ "$cur" != "$ref" ]; then echo "NONDETERMINISM: $bin seed=$seed workers=$w: $cur vs $ref"; bad=$((bad+1)); fi
      if [ "$code" != 0 ]; then echo "ALARM on unchanged tree: $bin seed=$seed workers=$w exit=$code"; bad=$((bad+1)); fi
    done
  done
done
echo "determinism: $total executions over $N seeds x 3 checks x worker counts {1,4,16,16}; mismatches or alarms: $bad"
[ $bad = 0 ]
