#!/usr/bin/env python3
"""Builds the 'which check catches which broken tree' table of DESIGN.md section 18 from
sim/target/sensitivity-full.log (tools/sensitivity.sh --with-tests) and seeded/*/meta.json."""
import json, os, re, sys
root = os.path.dirname(os.path.dirname(os.path.abspath(__file__)))
log = open(sys.argv[1] if len(sys.argv) > 1 else os.path.join(root, 'sim/target/sensitivity-full.log')).read().splitlines()
rows = []
for l in log:
    m = re.match(r'(CAUGHT|OUTSIDE-CLAIM|MISSED\S*)\s+(C\d+)\s+(\S+)\s+tests=(\S+)\s+([\d.]+)s\s*(.*)', l)
    if not m:
        continue
    verdict, prop, name, tests, secs, rest = m.groups()
    cls = re.search(r'class=(\w+)', rest)
    meta = os.path.join(root, 'seeded', name, 'meta.json')
    if os.path.exists(meta):
        md = json.load(open(meta))
        origin = 'sub-agent r%d' % md.get('round', 1)
        prop = md.get('property', prop)
        what = md['mechanism'] + ' — needs: ' + md['needs_to_manifest']
        if md.get('run_check') and md.get('run_check') != md.get('property'):
            what += ' — aimed at %s by the agent; the seam it needs is %s\'s, which reports it' % (md['property'], md['run_check'])
    else:
        origin = 'own'
        what = name.split('-', 1)[1].replace('_', ' ')
    rows.append((prop, name, origin, tests, verdict, cls.group(1) if cls else ('miri' if verdict == 'CAUGHT' else '-'), what))
rows.sort()
print('| property | broken tree | origin | suite | quick check | violation class | what it is / what it needs |')
print('|---|---|---|---|---|---|---|')
for r in rows:
    print('| %s | `%s` | %s | %s | %s | %s | %s |' % r)
c = sum(1 for r in rows if r[4] == 'CAUGHT')
print()
o = sum(1 for r in rows if r[4] == 'OUTSIDE-CLAIM')
print('%d broken trees, %d caught by the quick tier of the check for the property they break, %d outside what the check claims (stated), %d missed.' % (len(rows), c, o, len(rows) - c - o))
