#!/bin/bash
# Vets one sub-agent change in a scratch worktree (outside /repo and /verif):
#   tools/vet_seeded.sh <dir with patch.diff demo.rs README.md> <seeded id> <property>
# checks: patch applies; existing suites pass with it; demo fails with it and passes without it.
# On success copies the files to /verif/seeded/<id>/ and writes meta.json (without the check results).
set -u
SRC="$1"; ID="$2"; PROP="$3"; EXTRA="${4:-}"
WT=/tmp/vet-wt
if [ ! -d "$WT" ]; then git -C /repo worktree add -q --detach "$WT" HEAD || exit 2; fi
git -C "$WT" checkout -q --detach "$(git -C /repo rev-parse HEAD)" 2>/dev/null
git -C "$WT" checkout -- . ; git -C "$WT" clean -fdq -- src; rm -rf "$WT/tests"
cd "$WT" || exit 2
if ! git apply --check "$SRC/patch.diff" 2>/dev/null; then echo "$ID: patch does not apply"; exit 1; fi
mkdir -p tests; cp "$SRC/demo.rs" tests/demo.rs
demo() { cargo test --offline --all-features $EXTRA --test demo >/tmp/vet-demo.log 2>&1; }
demo; base=$?
git apply "$SRC/patch.diff"
# the existing suites must not see the demo
rm -rf /tmp/vet-tests-aside; mv tests /tmp/vet-tests-aside
cargo test --workspace --offline >/tmp/vet-t1.log 2>&1; t1=$?
cargo test --offline --all-features >/tmp/vet-t2.log 2>&1; t2=$?
mv /tmp/vet-tests-aside tests
demo; mut=$?
git checkout -- . ; git clean -fdq -- src; rm -rf tests
echo "$ID: demo_without_patch=$base (want 0) suite_default=$t1 (want 0) suite_all_features=$t2 (want 0) demo_with_patch=$mut (want !=0)"
if [ $base = 0 ] && [ $t1 = 0 ] && [ $t2 = 0 ] && [ $mut != 0 ]; then
  mkdir -p /verif/seeded/$ID
  cp "$SRC/patch.diff" "$SRC/demo.rs" /verif/seeded/$ID/
  cp "$SRC/README.md" /verif/seeded/$ID/README.md 2>/dev/null
  python3 - "$ID" "$PROP" "$EXTRA" <<'PY'
import json,sys,os
id,prop,extra=sys.argv[1:4]
p='/verif/seeded/%s/meta.json'%id
m=json.load(open(p)) if os.path.exists(p) else {}
m.update({"id":id,"property":prop,"origin":"fresh sub-agent given only the property text and a scratch worktree",
 "vetted":{"patch_applies_to_repo_head":True,"existing_suite_default_features_passes_with_patch":True,"existing_suite_all_features_passes_with_patch":True,
           "demo_passes_without_patch":True,"demo_fails_with_patch":True,
           "demo_cmd":"cp demo.rs <worktree>/tests/demo.rs && cargo test --offline --all-features %s --test demo"%extra}})
json.dump(m,open(p,'w'),indent=1)
PY
  exit 0
fi
tail -5 /tmp/vet-demo.log
exit 1
