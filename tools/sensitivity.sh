#!/bin/bash
# Applies each seeded / sensitivity patch to /repo in turn, runs the quick check of the
# property it targets, expects exit 1 (VIOLATION), and reverts. Never leaves /repo dirty.
#   tools/sensitivity.sh [--with-tests] [pattern]
set -u
ROOT="$(cd "$(dirname "${BASH_SOURCE[0]}")/.." && pwd)"
WITH_TESTS=0
if [ "${1:-}" = "--with-tests" ]; then WITH_TESTS=1; shift; fi
PAT="${1:-}"
if [ -n "$(git -C /repo status --porcelain)" ]; then echo "/repo is dirty, refusing"; exit 2; fi
trap 'git -C /repo checkout -- . 2>/dev/null; git -C /repo clean -fdq -- src 2>/dev/null' EXIT
pass=0; fail=0; known_miss=0
list=$(ls "$ROOT"/sensitivity/*.diff "$ROOT"/seeded/*/patch.diff 2>/dev/null)
for p in $list; do
  # (the pattern is an extended regular expression; a plain substring is one)
  if [ -n "$PAT" ] && ! [[ "$p" =~ $PAT ]]; then continue; fi
  case "$p" in
    */sensitivity/*) name=$(basename "$p" .diff); prop=${name%%-*};;
    # (run_check: the check whose seam the defect needs, when that is not the check of the property the agent aimed at)
    *) name=$(basename "$(dirname "$p")"); prop=$(python3 -c "import json,sys;m=json.load(open(sys.argv[1]));print(m.get('run_check') or m['property'])" "$(dirname "$p")/meta.json");;
  esac
  if ! git -C /repo apply "$p" 2>/dev/null; then echo "SKIP  $name (patch does not apply)"; continue; fi
  tests="-"
  if [ $WITH_TESTS = 1 ]; then
    if (cd /repo && cargo test --workspace --offline >/dev/null 2>&1 && cargo test --offline --all-features >/dev/null 2>&1); then tests=pass; else tests=FAIL; fi
  fi
  t0=$(date +%s.%N)
  out=$("$ROOT/check" "$prop" --tier quick --out "$ROOT/sim/target/sens-$prop.json" 2>&1); code=$?
  t1=$(date +%s.%N)
  git -C /repo checkout -- . ; git -C /repo clean -fdq -- src
  line=$(echo "$out" | grep -m1 "^violation class" | cut -c1-230)
  outside=no
  case "$p" in */seeded/*) outside=$(python3 -c "import json,sys;print('yes' if json.load(open(sys.argv[1])).get('outside_claim') else 'no')" "$(dirname "$p")/meta.json");; esac
  recorded=no
  case "$p" in */seeded/*) recorded=$(python3 -c "import json,sys;print('yes' if json.load(open(sys.argv[1])).get('missed') else 'no')" "$(dirname "$p")/meta.json");; esac
  if [ $code = 1 ]; then pass=$((pass+1)); verdict=CAUGHT
  elif [ $outside = yes ] && [ $code = 0 ]; then verdict="OUTSIDE-CLAIM"
  elif [ $recorded = yes ] && [ $code = 0 ]; then verdict="MISSED-RECORDED"; known_miss=$((known_miss+1))
  else fail=$((fail+1)); verdict="MISSED(exit $code)"; fi
  printf "%-8s %-4s %-45s tests=%s %5.1fs  %s\n" "$verdict" "$prop" "$name" "$tests" "$(echo "$t1 - $t0" | bc)" "$line"
done
rm -f "$ROOT"/replays/*.json
# leave the build output in the state of the clean tree again
(cd "$ROOT/sim" && cargo build --offline --release -p c18 -p c15 -p c03 >/dev/null 2>&1 && cargo build --offline --profile relchk -p c03 >/dev/null 2>&1 && cargo build --offline --profile devchk -p c03 >/dev/null 2>&1)
echo "caught=$pass missed=$fail recorded_misses=$known_miss"
[ $fail = 0 ]
